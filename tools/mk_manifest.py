#!/usr/bin/env python3
"""Writes /verif/MANIFEST.json from the table below (the single place where claims are recorded).
Only properties whose engine tools/props/cNN.py exists are claimed; the rest goes to not_applicable
with the reason given in PENDING."""
import json, os, subprocess, sys

V = os.path.dirname(os.path.dirname(os.path.abspath(__file__)))

TB = ("Trusted: Coq 8.16.1 kernel + vm_compute (no native_compute), no axioms declared (Print Assumptions of every "
      "theorem is copied into the evidence); extraction with ExtrOcamlBasic (plus ExtrOcamlString in coq/Extract.v for the window names of the generated schedules; no Extract Constant for numbers) + OCaml 4.13.1; gcc 12 / clang 14; "
      "the hand-written models are tied to the C code by the correspondence run (c/harness.c over the freshly built "
      "library vs ocaml/driver.ml over the extracted models, same seeded op scripts) - agreement on the generated "
      "inputs, not equivalence; translators tools/translate.py + tools/translate_acc.py + tools/translate_obs.py (T1), tools/sched_extract.py (T2), "
      "tools/alloc_sites.py + tools/globals_extract.py (T3).")

CLAIMS = {
 "C01": dict(text="Proof (Coq): the faithful models of the cubic routes, of _mzd_mul_va and of M4RM (all k, all block sizes, arbitrary stale tables and uninitialised index buffers) equal A*B / C+A*B for every input (Properties_C01a); the four mutually recursive Strassen-Winograd routines with the C split arithmetic and the mp.c front end (every interleaving of its four sections), over schedules re-extracted from strassen.c/mp.c by translator T2 on every run and re-checked (Properties_C01b); the DJB heap model, compile + apply = A*V (Properties_C01c). Tie: exact differential of every route incl. the kernel _mzd_mul_naive, squaring route, operands as views and sharing storage, supplied/allocated destination, k in 0..16, cutoffs, against the proven specification (Tier A) and bit-identity of the algorithm-faithful models incl. table contents and the DJB op list with the build's constants (Tier B).",
             note=TB + " SIMD kernels and Duff's devices are below the models (correspondence in all pointer phases, sse2 and scalar builds); int overflow of closer() guarded by hypothesis ub_guard.",
             technique='Coq proof of executable route models (refinement to A*B), schedules regenerated from the C source (T2) + two-tier differential correspondence', design="5/C01"),
 "C02": dict(text="Proof (Coq): naive Gauss returns rank and a row-equivalent (R)REF; RREF and rank unique; the non-reduced form under left-most-column/first-row pivoting unique; the M4RI block loop with 1..6 tables, lazy clearing, the kbar<kk branch, the density oracle and top reduction = Gauss for every k >= 1, both modes (Properties_C02, C02b); PLUQ-based construction and hybrid (Properties_C02c). Tie: every route (naive, M4RI k=0..10, PLUQ-based, hybrid with thresholds, top-reduction) compared exactly with the proven model on prescribed rank profiles, table-split residues, wide pivot-gap inputs; Tier B with the build's constants.",
             note=TB,
             technique='Coq proof (uniqueness of RREF, Gauss and M4RI models) + exact differential of all routes', design="5/C02"),
 "C03": dict(text="Proof (Coq): naive PLE/PLUQ meet the factorisation specification for all inputs and all initial P,Q; PLUQ-from-PLE; the block recursion of ple.c incl. Schur complement, offset fix-ups and _mzd_compress_l for every cutoff (Properties_C03); the Four-Russians base case _mzd_ple_russian/_mzd_pluq_russian (lazy block elimination, 1..7 tables with M/E/B index arrays, a10/a11/process_rows updates) is bit-identical with the naive routine for every k >= 1, unconditionally, hence mzd_ple/mzd_pluq over the library's own base case meet the specification (Properties_C03r). Tie: verified checkers ple_ok/pluq_ok on the outputs of every C route in host/small/stress builds, exact (A',P,r,Q[0..r)), and bit-identity of the faithful base-case model (Tier B, explicit k 1..9 and automatic k).",
             note=TB,
             technique='Coq proof of PLE/PLUQ models incl. the Four-Russians base case + verified checker on implementation outputs + Tier-B differential', design="5/C03"),
 "C04": dict(text="Proof (Coq): the four substitution models return the unique X with T*X=B / X*T=B reading only the named triangle; the recursive "
             "models with all regime thresholds equal them. Tie: exact differential of X for the eight entry points with garbage in the unused triangle.",
             note=TB, technique="Coq proof (uniqueness + recursion) + exact differential", design="5/C04"),
 "C05": dict(text="Proof (Coq): inversion through the RREF of [A|I] returns the two-sided inverse of every invertible A, independent of k; the recursion of mzd_trtri_upper for any base routine meeting its specification; the 4-table base routine mzd_trtri_upper_russian (faithful model: L index array, running bits ^= B[x], stale tables, tail loop) is bit-identical with back substitution for every admissible k (1..16), so mzd_trtri_upper over the library's own base routine inverts (Properties_C05). Tie: exact differential with the unique inverse incl. structured (sparse, banded, few-entry) inputs; Tier B: trtri_upper_russian with explicit k 0..16 and the recursion, host and small-cache builds.",
             note=TB,
             technique='Coq proof incl. the Four-Russians base routine + exact differential (two tiers)', design="5/C05"),
 "C06": dict(text="Proof (Coq): the model of solve.c returns 0 iff the padded system is solvable and then A*X=B, for both entry points; the pinned "
             "(pre-repair) variant is refuted by a witness. Tie: verdict compared with the rank criterion, A*X=B checked, exact X.",
             note=TB, technique="Coq proof of the solve model + differential of verdict/solution", design="5/C06"),
 "C07": dict(text="Proof (Coq): the kernel model returns None iff rank = ncols, else an n x (n-r) matrix with A*K=0 and independent columns. Tie: "
             "kernel_ok on the C output (dimension, product, rank of K) and exact K.",
             note=TB, technique="Coq proof + verified check of implementation output", design="5/C07"),
 "C08": dict(text='Proof (Coq): word-level kernels (add incl. aliasing, copy, copy_row, set_ui, submatrix aligned/unaligned incl. larger destination, concat, stack, extract) refine the abstract operations for all headers and memory contents (Properties_C08); the transpose kernels are TRANSLATED from mzd.c on every run (T1, Gen_transpose.v) and proven to transpose for all inputs, and the dispatcher model (pairing, tails, recursion, both dangerous-window branches) equals the abstract transpose for all shapes (Properties_C08t). Tie: exact differential incl. supplied/allocated destinations, mixed owned/view operands, all width classes, every residue class of the transpose kernels incl. source views.',
             note=TB,
             technique='Coq refinement proofs of word-level kernels, transpose kernels regenerated from the C text (T1) + exact differential', design="5/C08"),
 "C09": dict(text="Proof (Coq), partial: frame/standalone-copy theorems for every modelled word-level kernel on windows (every bit outside the view "
             "unchanged, result = operation on the copy). Algorithms on views are decided by correspondence: every catalogue operation x every subset of "
             "operands as windows x placements, result vs model on the standalone copy and every raw parent bit compared.",
             note=TB + " Partial by proof: algorithm-level routines are not re-proved at word level.",
             technique="Coq frame theorems + window-placement differential with raw parent words", design="5/C09"),
 "C10": dict(text="Proof (Coq), partial: fresh matrices are zero for every allocation history (C14 model); table construction is independent of stale table/"
             "index state (make_table_spec, gray_lookup, m4rm_spec quantify over garbage); padding preserved by word-level kernels. Tie: every case replayed "
             "under dirty allocator histories and poisoned heap (link-time --wrap), raw padding words of owned results inspected.",
             note=TB + " Partial: scratch arrays of the PLE base case are outside the model.",
             technique="Coq proofs over arbitrary stale state + perturbed-heap/history differential", design="5/C10"),
 "C11": dict(text="Proof (Coq), partial: checked memory model - word-level kernels never leave the allocation for valid headers; translated leaves have no UB "
             "on their domains; wrapper guards. Search: every catalogue operation (owned and windows in both 16-byte phases) in ASan+UBSan builds, "
             "ill-dimensioned calls must die, allocation balance per call.",
             note=TB + " Partial by proof: pointer-walking loops and SIMD paths are reached only by the sanitizer runs (which support the search, not the proof).",
             technique="Coq bounds theorems on the checked memory model + sanitizer replay of all scripts", design="5/C11"),
 "C12": dict(text="Proof (Coq): the route theorems of C01-C07 quantify over every tuning constant (k, cutoffs, block sizes, thresholds), so "
             "route cfg1 x = route cfg2 x. Tie: the same seeded cases in a matrix of builds (cache triples x sse2 x thread-safe x openmp), each equal to the "
             "configuration-free model.",
             note=TB, technique="Coq corollaries of parameter-generic route theorems + build-matrix differential", design="5/C12"),
 "C13": dict(text='Proof (Coq): pointwise effect of row/column primitives, bit-range operations and row combination from word offsets; left/right application multiply by the same permutation matrix; transposed application undoes; triangular variant; the blocked gather equals the swap sequence (Properties_C13); the accessor family of mzd.h (mzd_row, read/write_bit, read/xor/clear_bits, row_swap, row_add_offset, col_swap_in_rows, col_swap) is TRANSLATED from the C text on every run (T1 struct mode, Gen_access.v) and proven equal to these models with frame for all headers incl. windows (Properties_C13t). Tie: exact differential incl. short permutations, all word-boundary index classes, views, the combine family over all (width, start word) pairs.',
             note=TB + " The SSE2 branch of mzd_row_add_offset is outside the translation (scalar branch translated); covered by the differential in sse2 builds.",
             technique='Coq proof (permutation matrices of LAPACK swap sequences; accessors regenerated from the C text, T1) + exact differential', design="5/C13"),
 "C14": dict(text="Proof (Coq): invariant of the two-cache allocator model for every well-formed history and all parameters: fresh zero, live disjoint, "
             "free in any order, windows never free data, trace accepted by a real allocator, no retention after fini (Properties_C14, 9 theorems). Tie: "
             "--wrap trace of the real library vs the extracted model up to a bijection of block identities: bounded-exhaustive histories with lowered "
             "capacities (hook) + long random histories at real capacities.",
             note=TB + " Abstractions: block = (id,size,zero/dirty); int overflow of r*rowstride not modelled.",
             technique="Coq invariant by induction over operation histories + trace refinement check", design="5/C14"),
 "C15": dict(text="Proof (Coq), partial: in the thread-safe instantiation of the allocator model no step touches shared state, so every interleaving gives each "
             "thread its solo observations; the table of writable globals and their writers is regenerated from the thread-safe build on every run and "
             "must be load/unload-time only. Search: pthread harness under ThreadSanitizer, per-thread results vs sequential.",
             note=TB + " Partial: data races inside a routine and weak memory are outside the model; TSan supports the search only.",
             technique="Coq interleaving-independence proof + generated globals table + TSan harness", design="5/C15"),
 "C16": dict(text="Proof (Coq), partial: tasks with disjoint write footprints commute (the four mp.c sections; row-wise parallel-for), so every schedule equals "
             "the sequential result. Tie: OpenMP build under OMP_NUM_THREADS in {1,2,3,4,5,8,16} vs the model and the sequential build.",
             note=TB + " Partial: the OpenMP runtime and the memory model are assumed to run every section/iteration exactly once.",
             technique="Coq commutation proof + thread-count sweep differential", design="5/C16"),
 "C17": dict(text="Proof (Coq): equal/cmp/is_zero/first_zero_row/find_pivot/read-after-write characterised against the abstract matrix for all inputs "
             "(Properties_C17, 19 theorems); the C text of mzd_is_zero, mzd_equal, mzd_cmp, mzd_first_zero_row, mzd_find_pivot (all four paths), "
             "mzd_row_clear_offset and mzd_copy_row is TRANSLATED on every run (T1 struct mode, Gen_observers.v) and proven equal to these models for all "
             "headers incl. windows (Properties_C17t). Tie: exact differential on near-equal pairs (one, two, word-aligned differences), periodic "
             "contents, different shapes, all pivot start positions, owned and views.",
             note=TB, technique="Coq proof of observer specifications, observers regenerated from the C text (T1) + exact differential", design="5/C17"),
 "C18": dict(text="Proof (Coq), partial: PNG row packing/unpacking round trip and buffer bounds for all widths; JCF parser exact, complete and safe with the "
             "repaired guards (each guard shown necessary); refutations for the pinned readers. Tie: real round trips through libpng, JCF/str against the model, "
             "malformed corpus under ASan.",
             note=TB + " libpng and fscanf tokenisation are oracles.",
             technique="Coq proof of codec/parser models + differential and malformed-input search", design="5/C18"),
 "C19": dict(text="Proof (Coq) about the TRANSLATED leaf functions (regenerated from the C source on every run): code book k=1..16, parity network for all "
             "inputs, masks 65x64, bit reversal, spread/shrink, LSB compare; gray_lookup for every k. Tie: exhaustive comparison with the library on the "
             "finite domains, basis-complete on the linear ones.",
             note=TB + " CMini semantics = C11 integer semantics on LP64 as rendered by Leaf/CMini.v.",
             technique="translation of C leaves to a deep embedding + Coq sweeps/linearity + exhaustive correspondence", design="5/C19"),
 "C20": dict(text="Proof (Coq), partial: the translated allocation wrappers die on NULL for every size and #if variant; the cache front end falls through; the "
             "allocation-layer model dies at every fault position; the generated site table has no unchecked raw site. Search: fault enumeration of "
             "every scenario x every i in child processes (link-time --wrap).",
             note=TB + " Allocation failures inside libpng are reported by libpng's own error path (error return or abort), which the check accepts as controlled.",
             technique="Coq proof over generated site table + exhaustive single-fault injection", design="5/C20"),
}

PENDING = "check under construction at this commit (engine not yet registered); see DESIGN.md section 5"


def main():
    checks, na = [], []
    for pid in sorted(CLAIMS):
        c = CLAIMS[pid]
        eng = os.path.join(V, "tools", "props", pid.lower() + ".py")
        if not os.path.exists(eng) or pid in sys.argv[1:]:
            na.append({"property_id": pid, "reason": PENDING})
            continue
        checks.append({
            "property_id": pid,
            "quick_cmd": "python3 tools/check.py %s --tier quick" % pid,
            "thorough_cmd": "python3 tools/check.py %s --tier thorough" % pid,
            "evidence_file": "evidence/%s.json" % pid,
            "replay_cmd_template": "python3 tools/check.py %s --replay {path}" % pid,
            "engine": "check.py/" + pid.lower(),
            "level_claimed": {"category": "proof", "text": c["text"], "design_ref": "DESIGN.md section " + c["design"]},
            "level_note": c["note"],
            "technique": c["technique"],
        })
    hooks_commits = subprocess.run(["git", "-C", "/repo", "log", "--format=%h", "--grep=^verif hook"], capture_output=True, text=True).stdout.split()
    m = {
        "version": 1,
        "setup_cmd": "sh tools/setup.sh",
        "hooks": {
            "guard": "MALB_M4RI_VERIF",
            "enable": "every build made by tools/vlib.py passes -DMALB_M4RI_VERIF; C14 additionally -DMALB_M4RI_VERIF_MMC_NBLOCKS=2 -DMALB_M4RI_VERIF_MZD_T_CACHE_MAX=2",
            "baseline_off_cmd": "make -C /repo -j8 check",
            "source_commits": hooks_commits,
            "add_only": True,
        },
        "engines": [{"name": "check.py", "path": "tools/check.py", "serves_properties": [c["property_id"] for c in checks],
                     "kind_free_text": "Coq re-check of Properties_Cnn.v (+ regenerated model parts) followed by model/implementation correspondence"}],
        "checks": checks,
        "not_applicable": na,
        "notes": "Technique family: machine-checked proof in Coq 8.16.1. known_findings.json lists repaired (fixed) and recorded (known) defects.",
    }
    with open(os.path.join(V, "MANIFEST.json"), "w") as fh:
        json.dump(m, fh, indent=1)
        fh.write("\n")
    print("claimed:", [c["property_id"] for c in checks], "pending:", [x["property_id"] for x in na])


main()
