"""Common machinery for the m4ri proof checks: scratch handling, library builds from /repo's
working tree, Coq builds, extraction driver, evidence and VIOLATION reporting."""
import atexit, glob, hashlib, json, os, re, shutil, subprocess, sys, tempfile, time

VERIF = os.path.dirname(os.path.dirname(os.path.abspath(__file__)))
REPO = os.environ.get("VERIF_REPO", "/repo")
COQ = os.path.join(VERIF, "coq")
GUARD = "MALB_M4RI_VERIF"
NPROC = int(os.environ.get("VERIF_JOBS", "16"))

LIB_SOURCES = ["brilliantrussian", "debug_dump", "djb", "echelonform", "graycode", "io", "misc", "mmc",
               "mp", "mzd", "mzp", "ple", "ple_russian", "solve", "strassen", "triangular",
               "triangular_russian"]

_scratch = None


def scratch():
    """One scratch directory per process, outside /repo, /verif and /tmp, removed at exit."""
    global _scratch
    if _scratch is None:
        base = os.environ.get("VERIF_SCRATCH_BASE", "/var/tmp")
        os.makedirs(base, exist_ok=True)
        _scratch = tempfile.mkdtemp(prefix="m4ri-verif-", dir=base)
        atexit.register(lambda: shutil.rmtree(_scratch, ignore_errors=True))
    return _scratch


def run(cmd, timeout=None, cwd=None, env=None, input=None, check=False):
    p = subprocess.run(cmd, cwd=cwd, env=env, input=input, stdout=subprocess.PIPE, stderr=subprocess.PIPE,
                       timeout=timeout, text=True, errors="replace")
    if check and p.returncode != 0:
        raise RuntimeError("command failed: %s\n%s\n%s" % (cmd, p.stdout[-4000:], p.stderr[-4000:]))
    return p


# ----------------------------------------------------------------------------------------------
# Library builds
# ----------------------------------------------------------------------------------------------
HOST = None


def host_caches():
    """Cache sizes of the configured tree if /repo/m4ri/m4ri_config.h exists, else misc.h fall-backs."""
    global HOST
    if HOST is None:
        vals = {"L1": 16384, "L2": 262144, "L3": 4194304}
        p = os.path.join(REPO, "m4ri", "m4ri_config.h")
        if os.path.exists(p):
            s = open(p).read()
            for k in ("L1", "L2", "L3"):
                m = re.search(r"#define\s+__M4RI_CPU_%s_CACHE\s+(\d+)" % k, s)
                if m and int(m.group(1)) > 0:
                    vals[k] = int(m.group(1))
        HOST = vals
    return HOST


class Variant(dict):
    """A build configuration. Keys: name, l1,l2,l3 (bytes or 'host'), sse2, openmp, threadsafe, san
    ('' | 'asan' | 'tsan'), ndebug, defs (extra -D list), hooks (bool)."""

    def key(self):
        return hashlib.sha1(json.dumps(self, sort_keys=True).encode()).hexdigest()[:12]


def variant(name="host", l1="host", l2="host", l3="host", sse2=1, openmp=0, threadsafe=0, san="",
            ndebug=1, defs=(), hooks=True, opt="-O2", cc="gcc"):
    h = host_caches()
    return Variant(name=name, l1=h["L1"] if l1 == "host" else l1, l2=h["L2"] if l2 == "host" else l2,
                   l3=h["L3"] if l3 == "host" else l3, sse2=sse2, openmp=openmp, threadsafe=threadsafe,
                   san=san, ndebug=ndebug, defs=list(defs), hooks=hooks, opt=opt, cc=cc)


SMALL = dict(l1=4096, l2=32768, l3=65536)


def _config_h(tree, v):
    src = open(os.path.join(tree, "m4ri", "m4ri_config.h.in")).read()
    # configure couples: openmp => header cache off; thread-safe => both caches off
    mzd_cache = 0 if (v["openmp"] or v["threadsafe"]) else 1
    mmc = 0 if v["threadsafe"] else 1
    sub = {
        "M4RI_HAVE_MM_MALLOC": "1", "M4RI_HAVE_POSIX_MEMALIGN": "1", "M4RI_HAVE_SSE2": str(v["sse2"]),
        "M4RI_HAVE_OPENMP": str(v["openmp"]), "M4RI_CPU_L1_CACHE": str(v["l1"]),
        "M4RI_CPU_L2_CACHE": str(v["l2"]), "M4RI_CPU_L3_CACHE": str(v["l3"]), "M4RI_DEBUG_DUMP": "0",
        "M4RI_DEBUG_MZD": "0", "M4RI_HAVE_LIBPNG": "1", "CC": v["cc"], "SIMD_FLAGS": "", "OPENMP_CFLAGS": "",
        "CFLAGS": "", "M4RI_ENABLE_MZD_CACHE": str(mzd_cache), "M4RI_ENABLE_MMC": str(mmc),
    }
    out = re.sub(r"@([A-Z0-9_]+)@", lambda m: sub.get(m.group(1), "0"), src)
    return out


def copy_tree():
    """Copy /repo's *working tree* sources (m4ri/*.c,*.h,*.in) to scratch once per process."""
    dst = os.path.join(scratch(), "src")
    if os.path.isdir(dst):
        return dst
    os.makedirs(os.path.join(dst, "m4ri"))
    for f in glob.glob(os.path.join(REPO, "m4ri", "*")):
        if f.endswith((".c", ".h", ".in")) and not f.endswith("m4ri_config.h") and not f.endswith("/config.h"):
            shutil.copy(f, os.path.join(dst, "m4ri"))
    return dst


def cflags(v):
    fl = [v["opt"], "-g", "-std=gnu99", "-Wno-error", "-w", "-I/usr/include/libpng16"]
    if v["sse2"]:
        fl.append("-msse2")
    if v["openmp"]:
        fl.append("-fopenmp")
    if v["ndebug"]:
        fl.append("-DNDEBUG")
    if v["hooks"]:
        fl.append("-D" + GUARD)
    if v["san"] == "asan":
        fl += ["-fsanitize=address,undefined", "-fno-sanitize-recover=all", "-fno-omit-frame-pointer"]
    elif v["san"] == "tsan":
        fl += ["-fsanitize=thread"]
    for d in v["defs"]:
        fl.append("-D" + d)
    return fl


def build_lib(v):
    """Build the 17 library sources of the working tree for variant v. Returns the build dir
    (contains libm4ri.a and include root '.')"""
    tree = copy_tree()
    bdir = os.path.join(scratch(), "lib-" + v["name"] + "-" + v.key())
    if os.path.exists(os.path.join(bdir, "libm4ri.a")):
        return bdir
    os.makedirs(os.path.join(bdir, "m4ri"), exist_ok=True)
    for f in glob.glob(os.path.join(tree, "m4ri", "*")):
        shutil.copy(f, os.path.join(bdir, "m4ri"))
    with open(os.path.join(bdir, "m4ri", "m4ri_config.h"), "w") as fh:
        fh.write(_config_h(tree, v))
    fl = cflags(v)
    procs = []
    for s in LIB_SOURCES:
        src = os.path.join(bdir, "m4ri", s + ".c")
        if not os.path.exists(src):
            continue
        cmd = [v["cc"]] + fl + ["-I" + bdir, "-c", src, "-o", os.path.join(bdir, s + ".o")]
        procs.append((s, subprocess.Popen(cmd, stdout=subprocess.PIPE, stderr=subprocess.STDOUT, text=True)))
    objs = []
    for s, p in procs:
        out, _ = p.communicate()
        if p.returncode != 0:
            raise BuildError("library source %s.c does not compile in variant %s:\n%s" % (s, v["name"], out[-3000:]))
        objs.append(os.path.join(bdir, s + ".o"))
    run(["ar", "rcs", os.path.join(bdir, "libm4ri.a")] + objs, check=True)
    return bdir


class BuildError(Exception):
    pass


def build_harness(v, src="harness.c", out=None, extra=(), wrap=()):
    """Compile /verif/c/<src> against the variant's library."""
    bdir = build_lib(v)
    out = out or os.path.join(bdir, os.path.splitext(src)[0])
    if os.path.exists(out):
        return out
    cmd = [v["cc"]] + cflags(v) + ["-I" + bdir, "-I" + os.path.join(VERIF, "c"), os.path.join(VERIF, "c", src),
                                  "-o", out] + list(extra)
    cmd += [os.path.join(bdir, "libm4ri.a"), "-lpng16", "-lm", "-lpthread"]
    if wrap:
        cmd.append("-Wl," + ",".join("--wrap=" + w for w in wrap))
    p = run(cmd)
    if p.returncode != 0:
        raise BuildError("harness %s does not build in variant %s:\n%s" % (src, v["name"], (p.stdout + p.stderr)[-4000:]))
    return out


# ----------------------------------------------------------------------------------------------
# Coq
# ----------------------------------------------------------------------------------------------
FORBIDDEN = re.compile(r"\b(Admitted|admit|Axiom|Axioms|Parameter|Parameters|Conjecture|Conjectures|Hypothesis|"
                       r"Variable|Variables|Hypotheses)\b|Unset\s+Guard|bypass_check|type-in-type|impredicative-set|"
                       r"Admit\s+Obligations|native_compute|Unset\s+Universe\s+Checking|Unset\s+Positivity")


def _strip_comments(s):
    out, depth, i = [], 0, 0
    while i < len(s):
        if s.startswith("(*", i):
            depth += 1; i += 2
        elif s.startswith("*)", i) and depth:
            depth -= 1; i += 2
        else:
            if depth == 0:
                out.append(s[i])
            i += 1
    return "".join(out)


def grep_gate(only=None):
    """No Admitted/admit/Axiom/Parameter/... ; Variable/Hypothesis only inside Sections.
    only = iterable of paths relative to coq/ (the import closure of a property file); None = the files of
    _CoqProject (whole development: tools/final_gate.sh)."""
    bad = []
    files = [os.path.join(COQ, f) for f in (only if only is not None else coq_files())]
    for f in sorted(files):
        if not os.path.exists(f):
            continue
        txt = _strip_comments(open(f).read())
        depth = 0
        for ln, line in enumerate(txt.split("\n"), 1):
            if re.match(r"\s*Section\b", line):
                depth += 1
            for m in FORBIDDEN.finditer(line):
                w = m.group(0)
                if w.startswith(("Variable", "Hypothes")) and depth > 0:
                    continue
                bad.append("%s:%d: %s" % (os.path.relpath(f, VERIF), ln, w))
            if re.match(r"\s*End\b", line) and depth > 0:
                depth -= 1
    return bad


def coq_files():
    fs = []
    for line in open(os.path.join(COQ, "_CoqProject")):
        line = line.strip()
        if line.endswith(".v"):
            fs.append(line)
    return fs


def coq_makefile():
    mk = os.path.join(COQ, "Makefile")
    cp = os.path.join(COQ, "_CoqProject")
    if not os.path.exists(mk) or os.path.getmtime(mk) < os.path.getmtime(cp):
        run(["coq_makefile", "-f", "_CoqProject", "-o", "Makefile"], cwd=COQ, check=True)


class _Lock:
    """flock on coq/.buildlock: checks of different properties may run concurrently but share coq/ and
    ocaml/_build, so regeneration + make / extraction / driver build are serialised.  Re-entrant within a process."""
    depth = 0
    fh = None

    def __enter__(self):
        import fcntl
        if _Lock.depth == 0:
            _Lock.fh = open(os.path.join(COQ, ".buildlock"), "w")
            fcntl.flock(_Lock.fh, fcntl.LOCK_EX)
        _Lock.depth += 1
        return self

    def __exit__(self, *a):
        import fcntl
        _Lock.depth -= 1
        if _Lock.depth == 0:
            fcntl.flock(_Lock.fh, fcntl.LOCK_UN)
            _Lock.fh.close()
            _Lock.fh = None


COQC_TIMEOUT = int(os.environ.get("VERIF_COQC_TIMEOUT", "900"))


def coq_make(targets, timeout=3000, keep_going=True):
    """make -k <targets> in /verif/coq. Returns (ok, log)."""
    with _Lock():
        coq_makefile()
        # every coqc under its own time limit: a proof script replayed on a REGENERATED term that no longer has the
        # expected shape may diverge instead of failing (seen with a seeded change to mzd_equal: 37 CPU minutes);
        # the slowest file of the unchanged tree takes about 3 minutes on a loaded machine
        cmd = ["make", "-j%d" % NPROC, "COQC=timeout %d coqc" % COQC_TIMEOUT] + (["-k"] if keep_going else []) + list(targets)
        try:
            p = run(cmd, cwd=COQ, timeout=timeout)
        except subprocess.TimeoutExpired as e:
            return False, "TIMEOUT after %ss" % timeout
        return p.returncode == 0, p.stdout + p.stderr


def write_if_changed(path, content):
    if os.path.exists(path) and open(path).read() == content:
        return False
    os.makedirs(os.path.dirname(path), exist_ok=True)
    with open(path, "w") as fh:
        fh.write(content)
    return True


def theorems_of(vfile):
    txt = _strip_comments(open(os.path.join(COQ, vfile)).read())
    return re.findall(r"^\s*(?:Theorem|Corollary)\s+([A-Za-z0-9_']+)", txt, re.M)


def print_assumptions_of(log):
    """Parse the Print Assumptions output interleaved in a coqc log."""
    res = []
    cur = None
    for line in log.split("\n"):
        if line.startswith("Closed under the global context"):
            res.append("Closed under the global context")
        elif line.startswith("Axioms:"):
            cur = ["Axioms:"]
            res.append(cur)
        elif cur is not None and (line.startswith(" ") or line.strip() == ""):
            if line.strip():
                cur.append(line.strip())
            else:
                cur = None
        else:
            cur = None
    return [r if isinstance(r, str) else " ".join(r) for r in res]


STD_AXIOMS = ("functional_extensionality_dep", "proof_irrelevance", "classic", "JMeq_eq", "eq_rect_eq",
              "propositional_extensionality", "constructive_indefinite_description", "ClassicalDedekindReals",
              "Eqdep.Eq_rect_eq.eq_rect_eq", "PrimInt63", "PrimFloat", "Uint63", "sig_forall_dec", "sig_not_dec")


# ----------------------------------------------------------------------------------------------
# Generated model parts (translators T1-T3): every Properties file is re-checked against files regenerated
# from the CURRENT source, whichever check runs
# ----------------------------------------------------------------------------------------------
GENERATED = {"Leaf/Gen_leaf.v": "T1", "Leaf/Gen_transpose.v": "T1t", "Leaf/Gen_access.v": "T1a", "Leaf/Gen_observers.v": "T1o", "Alg/StrassenGen.v": "T2",
             "Sys/GenSites.v": "T3sites", "Sys/GenGlobals.v": "T3globals"}
_regen_done = {}


def import_closure(vfile):
    """transitive closure of `Require`d M4 modules of a .v file (paths relative to coq/)"""
    seen, todo = set(), [vfile]
    while todo:
        f = todo.pop()
        if f in seen or not os.path.exists(os.path.join(COQ, f)):
            continue
        seen.add(f)
        txt = _strip_comments(open(os.path.join(COQ, f)).read())
        for m in re.finditer(r"(?:From\s+M4\s+)?Require\s+(?:Import\s+|Export\s+)?([^.]*(?:\.[A-Za-z_][^.]*)*)\.\s", txt):
            for tok in m.group(1).split():
                tok = tok.strip()
                if tok.startswith("M4."):
                    tok = tok[3:]
                parts = tok.split(".")
                if len(parts) == 2 and os.path.exists(os.path.join(COQ, parts[0], parts[1] + ".v")):
                    todo.append("%s/%s.v" % (parts[0], parts[1]))
    return seen


def regen(kind):
    """run one translator against REPO (once per process). -> list of problems (strings)"""
    if kind in _regen_done:
        return _regen_done[kind]
    problems = []
    try:
        if kind == "T1":
            import translate
            changed, refused = translate.regenerate()
            problems = ["T1 refuses %s: %s" % (k, w) for k, w in refused.items()]
        elif kind == "T1t":
            import translate
            r = translate.regenerate_transpose()
            refused = r[1] if isinstance(r, tuple) and len(r) > 1 else {}
            problems = ["T1 (transpose kernels) refuses %s: %s" % (k, w) for k, w in (refused or {}).items()]
        elif kind == "T1a":
            import translate_acc
            changed, refused = translate_acc.regenerate_accessors()
            problems = ["T1 (accessors of mzd.h, struct mode) refuses %s: %s" % (k, w) for k, w in (refused or {}).items()]
        elif kind == "T1o":
            import translate_obs
            changed, refused = translate_obs.regenerate_observers()
            problems = ["T1 (observers of mzd.c, struct mode) refuses %s: %s" % (k, w) for k, w in (refused or {}).items()]
        elif kind == "T2":
            pr = run([sys.executable, os.path.join(VERIF, "tools", "sched_extract.py"), "--repo", REPO,
                      "--out", os.path.join(COQ, "Alg", "StrassenGen.v")])
            if pr.returncode != 0:
                problems = ["T2 refuses strassen.c/mp.c: " + (pr.stdout + pr.stderr)[-1500:]]
        elif kind == "T3sites":
            import alloc_sites
            g = alloc_sites.generate()
            problems = ["T3 (alloc_sites): %s" % x for x in g["problems"]]
        elif kind == "T3globals":
            import globals_extract
            globals_extract.regenerate()
    except BuildError as e:
        problems = ["%s: build failed: %s" % (kind, str(e)[-1500:])]
    except Exception as e:                       # a translator that crashes on the current source = refusal
        import traceback
        problems = ["%s crashed: %s" % (kind, traceback.format_exc()[-1500:])]
    _regen_done[kind] = problems
    return problems


def regen_for(prop_file):
    """regenerate the generated files that Properties/<prop_file>.v depends on. -> problems"""
    problems = []
    cl = import_closure("Properties/%s.v" % prop_file)
    for g, kind in GENERATED.items():
        if g in cl:
            problems += regen(kind)
    return problems


def prove(prop_file, extra_targets=()):
    """Rebuild Properties/<prop_file>.vo (and deps). Returns dict(obligations, discharged, ok, log,
    assumptions, theorems, failed)."""
    t0 = time.time()
    gate = grep_gate(import_closure("Properties/%s.v" % prop_file))
    vo = "Properties/%s.vo" % prop_file
    with _Lock():
        # a concurrent check (or tools/try_mutant.py on a patched copy) may have regenerated the generated files
        # from another tree: regeneration and make are one critical section
        _regen_done.clear()
        regen_problems = regen_for(prop_file)
        # touching the source makes `make` re-check the file (and re-emit Print Assumptions) without a window in
        # which a concurrent check sees no .vo
        try:
            os.utime(os.path.join(COQ, "Properties", prop_file + ".v"), None)
        except OSError:
            pass
        ok, log = coq_make([vo] + list(extra_targets))
    ths = theorems_of("Properties/%s.v" % prop_file)
    vsrc = os.path.join(COQ, "Properties", prop_file + ".v")
    built = (ok and os.path.exists(os.path.join(COQ, vo))
             and os.path.getmtime(os.path.join(COQ, vo)) >= os.path.getmtime(vsrc))
    assum = print_assumptions_of(log)
    bad_ax = [a for a in assum if a.startswith("Axioms:") and not any(s in a for s in STD_AXIOMS)]
    failed = []
    if gate:
        failed.append("forbidden constructs: " + "; ".join(gate[:5]))
    for rp in regen_problems:
        failed.append("translator: " + rp[:600])
    if not built:
        m = re.findall(r"File \"([^\"]+)\", line (\d+)[^\n]*\n(Error[^\n]*(?:\n[^\n]+){0,6})", log)
        for f, ln, err in m[:5]:
            failed.append("%s:%s %s" % (f, ln, err.replace("\n", " ")[:400]))
        if not m:
            failed.append("Properties/%s.vo did not build: %s" % (prop_file, log[-800:]))
    if bad_ax:
        failed.append("non-standard axioms: " + "; ".join(bad_ax))
    n = max(1, len(ths))
    good = built and not gate and not bad_ax and not regen_problems
    return dict(obligations=n, discharged=n if good else 0,
                ok=good, log=log, assumptions=assum, theorems=ths, failed=failed,
                wall=time.time() - t0)


# ----------------------------------------------------------------------------------------------
# Extraction / OCaml driver
# ----------------------------------------------------------------------------------------------
def build_driver():
    """Extract the executable models and build ocaml/driver. Rebuilt when sources are newer."""
    exdir = os.path.join(COQ, "extracted")
    os.makedirs(exdir, exist_ok=True)
    drv = os.path.join(VERIF, "ocaml", "_build", "driver")
    mls = ["conv.ml", "ext.ml", "driver.ml"]
    srcs = [os.path.join(VERIF, "ocaml", f) for f in mls] + [os.path.join(COQ, "Extract.v")]
    with _Lock():
        ok, log = coq_make(["Extract.vo"])
        if not ok:
            # The regenerated model parts no longer pass their checked side conditions (the proof obligation is
            # already reported as broken by the caller).  To SEARCH for a concrete failing input the correspondence
            # still needs an executable model: fall back to the pinned generated files (tools/pinned/, the files the
            # translators produced from the tree on which every theorem checked) and say so in the evidence.
            swapped = _swap_in_pinned()
            if swapped:
                ok, log2 = coq_make(["Extract.vo"])
                if ok:
                    MODEL_FALLBACK[:] = swapped
                else:
                    log += "\n--- with pinned generated files:\n" + log2
        if not ok:
            raise BuildError("extraction failed (models do not compile):\n" + log[-3000:])
        return _build_driver_locked(exdir, drv, mls, srcs)


MODEL_FALLBACK = []      # generated files replaced by their pinned version for the search (empty on a healthy tree)


def _swap_in_pinned():
    swapped = []
    for g in GENERATED:
        pin = os.path.join(VERIF, "tools", "pinned", g.replace("/", "_"))
        cur = os.path.join(COQ, g)
        if os.path.exists(pin) and (not os.path.exists(cur) or open(pin).read() != open(cur).read()):
            shutil.copy(pin, cur)
            swapped.append(g)
    return swapped


def _build_driver_locked(exdir, drv, mls, srcs):
    ml = os.path.join(exdir, "m4model.ml")
    if os.path.exists(drv) and all(os.path.getmtime(drv) >= os.path.getmtime(s) for s in srcs + [ml]):
        return drv
    os.makedirs(os.path.dirname(drv), exist_ok=True)
    b = os.path.dirname(drv)
    for f in ("m4model.ml", "m4model.mli"):
        shutil.copy(os.path.join(exdir, f), b)
    for f in mls:
        shutil.copy(os.path.join(VERIF, "ocaml", f), b)
    p = run(["ocamlfind", "ocamlopt", "-O3", "-w", "-a", "-package", "str", "-linkpkg", "m4model.mli", "m4model.ml"]
            + mls + ["-o", "driver"], cwd=b)
    if p.returncode != 0:
        raise BuildError("driver build failed:\n" + (p.stdout + p.stderr)[-3000:])
    return drv


# ----------------------------------------------------------------------------------------------
# Evidence / reporting
# ----------------------------------------------------------------------------------------------
def known_findings(prop):
    p = os.environ.get("VERIF_KNOWN") or os.path.join(VERIF, "known_findings.json")
    if not os.path.exists(p):
        return []
    return [e for e in json.load(open(p)) if e.get("property") == prop and e.get("status") == "known"]


EVID = os.environ.get("VERIF_EVIDENCE") or os.path.join(VERIF, "evidence")   # redirected by tools/try_mutant.py


def write_replay(prop, name, content):
    d = os.path.join(EVID, "replays")
    os.makedirs(d, exist_ok=True)
    h = hashlib.sha1(content.encode()).hexdigest()[:10]
    path = os.path.join(d, "%s-%s-%s.txt" % (prop, name, h))
    with open(path, "w") as fh:
        fh.write(content)
    return path


def write_evidence(prop, tier, seed, coverage, assumptions, wall_s, violations, level="proof"):
    os.makedirs(EVID, exist_ok=True)
    ev = dict(property_id=prop, tier=tier, seed=int(seed), level=level, coverage=coverage,
              assumptions=assumptions, wall_s=round(wall_s, 2), violations=int(violations))
    with open(os.path.join(EVID, prop + ".json"), "w") as fh:
        json.dump(ev, fh, indent=1, sort_keys=True)
        fh.write("\n")


class Result:
    """Collects what one check run found."""

    def __init__(self, prop, tier, seed):
        self.prop, self.tier, self.seed = prop, tier, seed
        self.t0 = time.time()
        self.violations = []      # (replay_path, no_input_found)
        self.known = []
        self.cov = dict(evaluations=0, distinct_nontrivial=0, rule="", samples=[], obligations=0, discharged=0,
                        checker_cmd="", trusted_base=[])
        self.assumptions = []
        self._distinct = set()

    def violation(self, replay_path, no_input=False):
        self.violations.append((replay_path, no_input))
        print("VIOLATION property=%s replay=%s%s" % (self.prop, replay_path, " no-failing-input-found" if no_input else ""))
        sys.stdout.flush()

    def known_finding(self, what):
        if what not in self.known:
            self.known.append(what)
            print("KNOWN-FINDING: property=%s %s" % (self.prop, what))
            sys.stdout.flush()

    def count(self, key, nontrivial=True):
        self.cov["evaluations"] += 1
        if nontrivial:
            self._distinct.add(key)

    def add_proof(self, pr):
        self.cov["obligations"] += pr["obligations"]
        self.cov["discharged"] += pr["discharged"]
        self.cov.setdefault("theorems", []).extend(pr["theorems"])
        self.cov.setdefault("print_assumptions", []).extend(pr["assumptions"])
        self.cov["proof_wall_s"] = round(self.cov.get("proof_wall_s", 0) + pr["wall"], 1)

    def finish(self):
        if MODEL_FALLBACK:
            self.cov["model_fallback"] = ("the regenerated %s no longer compile with the model; the search for a failing input "
                                          "ran the pinned versions (tools/pinned/)" % ", ".join(MODEL_FALLBACK))
            if not any(ni for _, ni in self.violations):
                self.violation(write_replay(self.prop, "translation", "obligation: the model parts regenerated from the "
                               "current source (%s) no longer pass their checked side conditions; Extract.vo does not "
                               "build with them" % ", ".join(MODEL_FALLBACK)), no_input=True)
        self.cov["distinct_nontrivial"] = len(self._distinct)
        self.cov["known_findings_seen"] = self.known
        write_evidence(self.prop, self.tier, self.seed, self.cov, self.assumptions, time.time() - self.t0,
                       len(self.violations))
        return 1 if self.violations else 0
