"""Generic correspondence engine shared by the operational properties."""
import json, os, time
import vlib, corr, gen, ops


def match_known(prop, case, extra=None):
    """A mismatch is a known finding only if an entry of known_findings.json with status 'known' names
    this property, this operation and a predicate over the case's meta data that holds."""
    meta = dict(case.meta)
    if extra:
        meta.update(extra)
    for e in vlib.known_findings(prop):
        m = e.get("match", {})
        if m.get("op") and m["op"] != meta.get("op"):
            continue
        when = m.get("when")
        try:
            if when and not eval(when, {"__builtins__": {}}, {"meta": meta, "any": any, "all": all, "len": len}):
                continue
        except Exception:
            continue
        return e
    return None


def handle_mismatches(res, prop, bad, runner, tag="", extra=None, regen=None):
    """Report each mismatch as KNOWN-FINDING or VIOLATION (with the case text as replay).
    For a violation try to find a smaller failing case of the same operation first."""
    reported = set()
    for case, why, co, mo in bad:
        ex = dict(extra or {})
        ex.update(why=why, fate=(co[0] if co else "MISSING"), model_fate=(mo[0] if mo else "MISSING"),
                  windowed=any(l.startswith("win ") for l in case.lines))
        e = match_known(prop, case, ex)
        if e is not None:
            res.known_finding("%s: %s" % (e.get("id", "?"), e.get("what", "")))
            continue
        key = (case.meta.get("op"), why.split(" ")[0], tag)
        if key in reported:
            continue
        reported.add(key)
        best = (case, why, co, mo)
        if regen is not None:
            small = regen(case)
            if small is not None:
                # a smaller failing case of the same operation that is itself a recorded finding is a different
                # failure: keep the original as the replay
                sc, swhy, sco, smo = small
                sx = dict(extra or {})
                sx.update(why=swhy, fate=(sco[0] if sco else "MISSING"), model_fate=(smo[0] if smo else "MISSING"),
                          windowed=any(l.startswith("win ") for l in sc.lines))
                if match_known(prop, sc, sx) is None:
                    best = small
        c2, why2, co2, mo2 = best
        path = vlib.write_replay(prop, (c2.meta.get("op", "case") + tag).replace("/", "_"),
                                 "# property %s: the implementation's output differs from the proven model%s\n"
                                 "# replay: python3 tools/check.py %s --replay <this file>\n%s" % (
                                     prop, (" [%s]" % tag) if tag else "", prop, corr.describe(c2, why2, co2, mo2)))
        res.violation(path)


def smaller_failing(runner, opname, W, seeds, sizes=(6, 12, 24, 48, 70), per=25, env=None):
    """Look for a smaller failing case of the same operation (cheap shrinking by regeneration)."""
    for sz in sizes:
        g = gen.G(seeds)
        cases = [ops.build(opname, g, W, sz) for _ in range(per)]
        cout, mout = runner.run(cases, env=env)
        bad = corr.compare(cases, cout, mout)
        if bad:
            bad.sort(key=lambda b: len(b[0].text()))
            return bad[0]
    return None


def run_ops(res, prop, opnames, seed, n_per_op, sz, variant=None, W=None, env=None, tag="", runner=None,
            sample_every=0):
    """Generate n_per_op cases per operation, run both sides, compare, report. Returns (cases, bad)."""
    runner = runner or corr.Runner(variant)
    g = gen.G(seed)
    cases = []
    for name in opnames:
        for _ in range(n_per_op):
            cases.append(ops.build(name, g, W, sz))
    cout, mout = runner.run(cases, env=env)
    bad = corr.compare(cases, cout, mout)
    dist = res.cov.setdefault("distribution", {})
    for c in cases:
        m = c.meta
        nontrivial = not all(k in ("zero",) for k in m.get("kinds", ("x",))) and max(m.get("shape", (2,))) > 1
        key = (m.get("op"), tuple(s // 64 for s in m.get("shape", ())), tuple(s % 64 == 0 for s in m.get("shape", ())),
               m.get("kinds"), m.get("alias"), m.get("param"), m.get("full"), m.get("k"), tag)
        res.count(key, nontrivial)
        d = dist.setdefault(m.get("op") + tag, {"n": 0})
        d["n"] += 1
        f = (mout.get(c.id) or ("?",))[0]
        d[f] = d.get(f, 0) + 1
    if cases and len(res.cov["samples"]) < 6:
        res.cov["samples"].append(cases[0].text()[:600])
        res.cov["samples"].append(cases[-1].text()[:600])

    def regen(case):
        return smaller_failing(runner, case.meta["op"], W, seed + 1, env=env)

    handle_mismatches(res, prop, bad, runner, tag=tag, regen=regen)
    return cases, bad


def replay_file(res, prop, path, variant=None):
    """Re-run the script stored in a replay file on the current tree."""
    txt = open(path).read()
    if "--- script" not in txt:
        # a broken-obligation replay: re-check the proofs
        return None
    body = txt.split("--- script\n", 1)[1].split("--- C side", 1)[0]
    lines = body.strip().split("\n")
    cid = lines[0][5:].strip()
    case = corr.Case(cid, lines[1:-1] if lines[-1].startswith("end") else lines[1:], {"op": cid.split("-")[0]})
    runner = corr.Runner(variant)
    cout, mout = runner.run([case])
    bad = corr.compare([case], cout, mout)
    res.count(("replay", cid))
    res.cov["samples"].append(case.text()[:600])
    for c, why, co, mo in bad:
        e = match_known(prop, c)
        if e is not None:
            res.known_finding("%s: %s" % (e.get("id", "?"), e.get("what", "")))
        else:
            p = vlib.write_replay(prop, "replay", "# replayed\n" + corr.describe(c, why, co, mo))
            res.violation(p)
    return bad


def corpus(res, prop, variant=None, runner=None):
    """Run the committed minimal cases of corpus/<prop>/ first (every finding and false alarm met so far)."""
    import glob
    d = os.path.join(vlib.VERIF, "corpus", prop)
    files = sorted(glob.glob(os.path.join(d, "*.txt")))
    cases = []
    for f in files:
        txt = open(f).read()
        if "--- script" not in txt:
            continue
        body = txt.split("--- script\n", 1)[1].split("--- C side", 1)[0]
        lines = body.strip().split("\n")
        cid = "corpus-" + os.path.basename(f)[:-4]
        opn = lines[0][5:].strip().split("-")[0]
        cases.append(corr.Case(cid, lines[1:-1] if lines[-1].startswith("end") else lines[1:], {"op": opn, "corpus": os.path.basename(f)}))
    if not cases:
        return
    runner = runner or corr.Runner(variant)
    cout, mout = runner.run(cases)
    bad = corr.compare(cases, cout, mout)
    for c in cases:
        res.count(("corpus", c.id))
    res.cov["corpus_cases"] = res.cov.get("corpus_cases", 0) + len(cases)
    handle_mismatches(res, prop, bad, runner, tag="/corpus")


def proof_part(res, prop_files, search=None):
    """Re-check the Coq theorems. A broken obligation => run search(); report."""
    allok = True
    for pf in prop_files:
        pr = vlib.prove(pf)
        res.add_proof(pr)
        if not pr["ok"]:
            allok = False
            found = search(pr) if search else None
            if found:
                res.violation(found)
            else:
                path = vlib.write_replay(res.prop, "obligation",
                                         "obligation no longer checks: Properties/%s.v\n%s\n" % (pf, "\n".join(pr["failed"])))
                res.violation(path, no_input=True)
    res.cov["checker_cmd"] = "cd /verif/coq && make -k " + " ".join("Properties/%s.vo" % p for p in prop_files)
    tb = ["Coq 8.16.1 kernel + vm_compute", "ExtrOcamlBasic extraction + OCaml 4.13.1 (driver)", "gcc 12 builds of /repo working tree",
          "c/harness.c, ocaml/driver.ml, tools/*.py (generators, diff)"]
    for a in res.cov.get("print_assumptions", []):
        if a not in tb:
            tb.append("Print Assumptions: " + a)
    res.cov["trusted_base"] = tb
    return allok
