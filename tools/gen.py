"""Seeded generators of op-script cases.  Every random choice comes from one random.Random(seed);
a case is replayable from its text alone (stored verbatim in replay files)."""
import random
from corr import Case

EDGE = [1, 2, 3, 5, 8, 9, 15, 16, 17, 31, 32, 33, 53, 54, 55, 63, 64, 65, 66, 100, 127, 128, 129, 130, 191, 192, 193,
        255, 256, 257]


def hexrow(v):
    return "%x" % v


class G:
    def __init__(self, seed):
        self.rng = random.Random(seed)
        self.n = 0

    # ---------------- dimensions ----------------
    def dim(self, maxd=200, mind=1):
        r = self.rng
        c = r.random()
        if c < 0.55:
            cand = [d for d in EDGE if mind <= d <= maxd]
            return r.choice(cand) if cand else mind
        return r.randint(mind, maxd)

    def small(self, maxd=40):
        return self.rng.randint(1, maxd)

    # ---------------- contents ----------------
    def rows(self, nr, nc, kind=None):
        r = self.rng
        kind = kind or r.choice(["dense", "dense", "dense", "sparse", "zero", "ident", "single", "ones", "lowrank",
                                 "lastcol", "quadzero"])
        full = (1 << nc) - 1
        if kind == "dense":
            return [r.getrandbits(nc) for _ in range(nr)], kind
        if kind == "sparse":
            out = []
            for _ in range(nr):
                v = 0
                for _ in range(r.randint(0, 3)):
                    v |= 1 << r.randrange(nc)
                out.append(v)
            return out, kind
        if kind == "zero":
            return [0] * nr, kind
        if kind == "ident":
            return [(1 << i) if i < nc else 0 for i in range(nr)], kind
        if kind == "single":
            out = [0] * nr
            out[r.randrange(nr)] = 1 << r.choice([0, nc - 1, r.randrange(nc), (nc - 1) // 64 * 64])
            return out, kind
        if kind == "ones":
            return [full] * nr, kind
        if kind == "lastcol":
            return [(r.getrandbits(1) << (nc - 1)) | (r.getrandbits(1)) for _ in range(nr)], kind
        if kind == "lowrank":
            k = r.randint(1, max(1, min(nr, nc, 5)))
            basis = [r.getrandbits(nc) for _ in range(k)]
            out = []
            for _ in range(nr):
                v = 0
                for b in basis:
                    if r.getrandbits(1):
                        v ^= b
                out.append(v)
            return out, kind
        if kind == "quadzero":
            # block triangular / block diagonal: dense with one or two quadrants zero, split at the word-aligned halves the
            # recursive routines use (data-dependent shortcuts on zero blocks)
            hr = (((nr - 1) // 64 + 1) >> 1) * 64 if nr > 64 else nr // 2
            hc = (((nc - 1) // 64 + 1) >> 1) * 64 if nc > 64 else nc // 2
            zq = r.choice([("tr",), ("bl",), ("tr", "bl"), ("tl",), ("br",)])
            lo, hi = (1 << hc) - 1, full & ~((1 << hc) - 1)
            out = []
            for i in range(nr):
                v = r.getrandbits(nc) if nc else 0
                top = i < hr
                if ("tl" in zq and top) or ("bl" in zq and not top):
                    v &= ~lo
                if ("tr" in zq and top) or ("br" in zq and not top):
                    v &= ~hi
                out.append(v & full)
            return out, kind
        if kind == "period64":      # placeholder content; tools/ops.py builds the periodic rows itself
            return [0] * nr, kind
        raise ValueError(kind)

    def rank_profile_rows(self, nr, nc):
        """Matrix with prescribed pivot columns (gaps crossing word boundaries), dependent rows anywhere."""
        r = self.rng
        rk = r.randint(0, min(nr, nc))
        style = r.choice(["rand", "left", "right", "gap64", "spread"])
        cols = list(range(nc))
        if style == "left":
            piv = cols[:rk]
        elif style == "right":
            piv = cols[nc - rk:]
        elif style == "gap64" and nc > 70:
            lo = [c for c in cols if c < 3 or c >= 64 + r.randint(0, 5)]
            piv = sorted(r.sample(lo, min(rk, len(lo))))
        elif style == "spread":
            step = max(1, nc // max(1, rk))
            piv = cols[::step][:rk]
        else:
            piv = sorted(r.sample(cols, rk))
        rk = len(piv)
        # echelon basis: row i has leading one at piv[i], random to the right
        basis = []
        for p in piv:
            v = 1 << p
            hi = r.getrandbits(nc) >> (p + 1) << (p + 1) if r.random() < 0.8 else 0
            v |= hi & ((1 << nc) - 1)
            basis.append(v)
        rows = []
        # make sure the basis is spanned: first put rk random invertible combos, then dependent rows
        order = list(range(nr))
        r.shuffle(order)
        out = [0] * nr
        for idx, pos in enumerate(order):
            if idx < rk:
                v = basis[idx]
                for j in range(idx):
                    if r.getrandbits(1):
                        v ^= basis[j]
            else:
                v = 0
                if r.random() < 0.7:
                    for b in basis:
                        if r.getrandbits(1):
                            v ^= b
            out[pos] = v
        return out, "rank%d/%s" % (rk, style)

    def tri_mask_rows(self, n, style):
        """structure of the strict triangle: a list of n masks over the columns 0..n-1 (ANDed with the random entries)"""
        r = self.rng
        full = (1 << n) - 1
        if style == "sparse":                      # 0..3 entries per row
            out = []
            for _ in range(n):
                v = 0
                for _ in range(r.randint(0, 3)):
                    v |= 1 << r.randrange(n)
                out.append(v)
            return out
        if style == "few":                         # identity plus at most 5 entries in all
            out = [0] * n
            for _ in range(r.randint(0, 5)):
                out[r.randrange(n)] |= 1 << r.randrange(n)
            return out
        if style == "colsparse":                   # entries only in a sparse set of columns (runs of 1..24 columns)
            cols, c = 0, r.randrange(0, 40)
            while c < n:
                run = r.randint(1, 24)
                cols |= ((1 << run) - 1) << c
                c += run + r.randint(8, 70)
            return [cols & full] * n
        if style == "band":
            b = r.choice([1, 2, 5, 33, 70])
            return [(((1 << (2 * b + 1)) - 1) << max(0, i - b)) >> max(0, b - i) & full if i < b else (((1 << (2 * b + 1)) - 1) << (i - b)) & full
                    for i in range(n)]
        if style == "rowsparse":                   # most rows empty, a few dense
            return [full if r.random() < 0.12 else 0 for _ in range(n)]
        return [full] * n

    TRI_STYLES = ["dense"] * 11 + ["sparse", "sparse", "few", "few", "colsparse", "colsparse", "band", "rowsparse", "rowsparse"]

    def unit_tri_rows(self, n, upper, garbage=True, style=None):
        """unit triangular; the strict triangle random within a structure (dense / sparse / identity plus a few entries /
        sparse column set / band / few dense rows: data-dependent shortcuts of the table-driven kernels see rows and
        blocks without entries); the other triangle garbage (never to be read) or zero"""
        r = self.rng
        style = style or r.choice(self.TRI_STYLES)
        self.last_tri_style = style
        masks = self.tri_mask_rows(n, style)
        out = []
        for i in range(n):
            v = r.getrandbits(n) if garbage else 0
            rnd = r.getrandbits(n) if style != "sparse" and style != "few" else (1 << n) - 1
            rnd &= masks[i]
            if upper:
                keep = rnd >> (i + 1) << (i + 1)          # strict upper random
                low = v & ((1 << i) - 1) if garbage else 0  # garbage below diagonal
                out.append((keep | (1 << i) | low) & ((1 << n) - 1))
            else:
                keep = rnd & ((1 << i) - 1)
                hi = (v >> (i + 1) << (i + 1)) if garbage else 0
                out.append((keep | (1 << i) | hi) & ((1 << n) - 1))
        return out

    def invertible_rows(self, n):
        """product of random unit lower, unit upper and a permutation"""
        L = self.unit_tri_rows(n, False, garbage=False)
        U = self.unit_tri_rows(n, True, garbage=False)
        # rows of L*U
        out = []
        for i in range(n):
            v = 0
            a = L[i]
            k = 0
            while a:
                if a & 1:
                    v ^= U[k]
                a >>= 1
                k += 1
            out.append(v)
        self.rng.shuffle(out)
        return out

    def lapack_perm(self, length, n, kind=None):
        r = self.rng
        kind = kind or r.choice(["rand", "rand", "ident", "single", "last"])
        if kind == "ident":
            return list(range(length))
        if kind == "single":
            p = list(range(length))
            i = r.randrange(length)
            p[i] = r.randint(i, n - 1)
            return p
        if kind == "last":
            return [n - 1 if i < n else i for i in range(length)]
        return [r.randint(i, n - 1) for i in range(length)]

    # ---------------- script fragments ----------------
    def mat_line(self, name, nr, nc, rows):
        return "mat %s %d %d %s" % (name, nr, nc, " ".join(hexrow(v) for v in rows))

    def perm_line(self, name, vals):
        return "perm %s %d %s" % (name, len(vals), " ".join(str(v) for v in vals))

    def case(self, prefix, lines, **meta):
        self.n += 1
        return Case("%s-%d" % (prefix, self.n), lines, meta)

    # A matrix operand: either owned, or a window into a larger parent filled with random bits
    def operand(self, name, nr, nc, rows, window=None):
        """returns (lines, dump_names). window=None: owned. window=dict(r0, wo (word offset), extra_r, extra_c)"""
        if not window:
            return [self.mat_line(name, nr, nc, rows)], [name]
        r = self.rng
        r0 = window.get("r0", r.randint(0, 2))
        wo = window.get("wo", r.randint(0, 2))
        er = window.get("extra_r", r.randint(0, 2))
        ec = window.get("extra_c", r.choice([0, 1, 37, 64, 65]))
        fill = window.get("fill", "rand")
        pc = wo * 64 + nc + ec
        pr = r0 + nr + er
        c0 = wo * 64
        prow = []
        for i in range(pr):
            base = (1 << pc) - 1 if fill == "ones" else r.getrandbits(pc)
            if r0 <= i < r0 + nr:
                base &= ~(((1 << nc) - 1) << c0)
                base |= rows[i - r0] << c0
            prow.append(base)
        pn = name + "_par"
        return [self.mat_line(pn, pr, pc, prow), "win %s %s %d %d %d %d" % (name, pn, r0, c0, r0 + nr, c0 + nc)], [name, pn]


# ------------------------------------------------------------------------------------------------
# generators for the factorisation / solving properties (C03..C07).  Added as functions (not methods
# drawing from G in a different order) so that the streams of the existing operations do not change.
# ------------------------------------------------------------------------------------------------
def junk_perm(g, length, hi=4000):
    """arbitrary non-negative contents of P->values / Q->values on entry (not a permutation)"""
    return [g.rng.randrange(hi) for _ in range(length)]


def rank_profile_rows2(g, nr, nc, style=None):
    """Matrix with prescribed pivot columns: gaps crossing word boundaries, all-zero column blocks of width
    >= 7k (the 'no pivot in this block' branch of the Four-Russians base case), pivots only in the last
    columns, rank 0 / low / full; the independent rows first, last, in the middle or anywhere."""
    r = g.rng
    style = style or r.choice(["rand", "rand", "left", "right", "gap64", "spread", "zeroblock", "zeroblock", "wordgap",
                               "fullrank", "lowrank", "rank0", "lastcols"])
    cols = list(range(nc))
    allowed = cols
    zb = None
    if style == "zeroblock" and nc >= 20:
        w = min(r.choice([14, 21, 28, 35, 42, 49, 56, 57, 64, 70, 100]), nc - 2)
        a = max(0, min(r.choice([0, 64 - w // 2, r.randrange(nc - w + 1), nc - w]), nc - w))
        zb = (a, a + w)
        allowed = [c for c in cols if not (a <= c < a + w)]
    elif style == "wordgap" and nc > 130:
        lo, hi = 64 - r.randint(0, 3), 128 + r.randint(0, 3)
        allowed = [c for c in cols if c < lo or c >= hi]
    elif style == "gap64" and nc > 70:
        hi = 64 + r.randint(0, 5)
        allowed = [c for c in cols if c < 3 or c >= hi]
    elif style == "lastcols":
        allowed = cols[max(0, nc - r.randint(1, 9)):]
    maxrk = min(nr, len(allowed))
    if style == "fullrank":
        rk = maxrk
    elif style == "rank0":
        rk = 0
    elif style == "lowrank":
        rk = min(maxrk, r.randint(1, 3))
    else:
        rk = r.randint(0, maxrk)
    if style == "left":
        piv = allowed[:rk]
    elif style == "right":
        piv = allowed[len(allowed) - rk:]
    elif style == "spread":
        step = max(1, len(allowed) // max(1, rk))
        piv = allowed[::step][:rk]
    else:
        piv = sorted(r.sample(allowed, rk))
    rk = len(piv)
    full = (1 << nc) - 1
    zmask = full
    if zb:
        zmask &= ~(((1 << (zb[1] - zb[0])) - 1) << zb[0])
    if style in ("wordgap", "gap64", "lastcols") and r.random() < 0.5:
        # the excluded columns hold no pivot because they are zero (otherwise: because they are dependent)
        zmask = 0
        for c in allowed:
            zmask |= 1 << c
    basis = []
    for p in piv:
        v = 1 << p
        if r.random() < 0.85:
            v |= (r.getrandbits(nc) >> (p + 1) << (p + 1)) & full
        basis.append(v & zmask | (1 << p))
    place = r.choice(["rand", "rand", "indep_first", "indep_last", "indep_mid"])
    order = list(range(nr))
    if place == "rand":
        r.shuffle(order)
    elif place == "indep_last":
        order = order[nr - rk:] + order[:nr - rk]
    elif place == "indep_mid":
        s = (nr - rk) // 2
        order = order[s:s + rk] + order[:s] + order[s + rk:]
    out = [0] * nr
    for idx, pos in enumerate(order):
        if idx < rk:
            v = basis[idx]
            for j in range(idx):
                if r.getrandbits(1):
                    v ^= basis[j]
        else:
            v = 0
            if r.random() < 0.7:
                for b in basis:
                    if r.getrandbits(1):
                        v ^= b
        out[pos] = v
    return out, "rank%d/%s/%s" % (rk, style, place)


def mat_mul_rows(a_rows, b_rows):
    """rows of A*B over GF(2) (row i of A as an integer, column j = bit j)"""
    out = []
    for a in a_rows:
        v, k = 0, 0
        while a:
            if a & 1:
                v ^= b_rows[k]
            a >>= 1
            k += 1
        out.append(v)
    return out


def tri_dim(g, sz):
    """dimension of a triangular system: around 64 and around the regime thresholds below sz"""
    r = g.rng
    sz = max(sz, 1)
    if r.random() < 0.5:
        cand = [d for d in (1, 2, 31, 32, 33, 63, 64, 65, 66, 96, 127, 128, 129, 130, 191, 192, 193, 255, 256, 257, 258, 300,
                            362, 363, 364, 384, 385, 448, 511, 512, 513, 600) if d <= sz]
        return r.choice(cand)
    return g.dim(sz)
