#!/bin/sh
# usage: process_mutant.sh ID PROPS...  : confirm both mutants of /tmp/mut/ID-out (unless confirmed), then run the checks of PROPS against each
ID=$1; shift
O=/tmp/mut/$ID-out
[ -s /var/tmp/runs/confirm-$ID.log ] || sh /verif/tools/confirm_both.sh $ID > /var/tmp/runs/confirm-$ID.log 2>&1
for k in 1 2; do
  python3 /verif/tools/try_mutant.py $O/mutant$k.diff "$@" > /var/tmp/runs/mut4-$ID-$k.log 2>&1
done
echo done > /var/tmp/runs/mut4-$ID.done
