#!/bin/sh
# usage: process_mutant.sh ID PROPS...  : confirm both mutants of /tmp/mut/ID-out in the scratch worktree (default demo build, or
# build_demo<k>.sh <worktree> <binary> when the sub-agent supplied one), then run the checks of PROPS against each patched copy
ID=$1; shift
O=/tmp/mut/$ID-out
: > /var/tmp/runs/confirm-$ID.log
for k in 1 2; do
  if [ -f $O/build_demo$k.sh ]; then
    sh /verif/tools/confirm_mutant2.sh $ID $k "sh build_demo$k.sh \$WT ./demo$k.bin >/dev/null 2>&1 && ./demo$k.bin" >> /var/tmp/runs/confirm-$ID.log 2>&1
  else
    sh /verif/tools/confirm_mutant.sh $ID $k >> /var/tmp/runs/confirm-$ID.log 2>&1
  fi
done
for k in 1 2; do
  python3 /verif/tools/try_mutant.py $O/mutant$k.diff "$@" > /var/tmp/runs/mut5-$ID-$k.log 2>&1
done
echo done > /var/tmp/runs/mut5-$ID.done
