#!/usr/bin/env python3
"""Run checks against a seeded change WITHOUT touching /repo (other work may be using it):
   try_mutant.py <patch.diff> Cnn [Cmm ...] [--tier quick|thorough] [--seed N]
Copies /repo's working tree (tracked files + m4ri_config.h) to a scratch directory under /var/tmp, applies
the patch there, runs `tools/check.py Cnn` with VERIF_REPO pointing at the copy and the evidence redirected to
the scratch, prints the VIOLATION / KNOWN-FINDING lines and the summary line, removes the scratch.
Afterwards the generated Coq files (Gen_leaf.v, StrassenGen.v, GenSites.v, GenGlobals.v) are regenerated from
/repo by re-running the proof part of the same checks on the clean tree (quietly).
(The registered way - `git -C /repo apply`, run the check, `git -C /repo checkout -- .` - gives the same result;
this script only avoids disturbing concurrent users of /repo.)"""
import os, shutil, subprocess, sys, tempfile

V = os.path.dirname(os.path.dirname(os.path.abspath(__file__)))


def main():
    args = sys.argv[1:]
    tier, seed = "quick", None
    if "--tier" in args:
        i = args.index("--tier"); tier = args[i + 1]; del args[i:i + 2]
    if "--seed" in args:
        i = args.index("--seed"); seed = args[i + 1]; del args[i:i + 2]
    patch, props = os.path.abspath(args[0]), args[1:]
    d = tempfile.mkdtemp(prefix="mutrun-", dir="/var/tmp")
    rc_all = 0
    try:
        subprocess.check_call("git -C /repo ls-files -z | (cd /repo && xargs -0 cp --parents -t %s)" % d, shell=True)
        if os.path.exists("/repo/m4ri/m4ri_config.h"):
            shutil.copy("/repo/m4ri/m4ri_config.h", os.path.join(d, "m4ri"))
        # uncommitted edits of tracked files in /repo are part of "the current working tree"
        subprocess.check_call(["git", "init", "-q"], cwd=d)
        p = subprocess.run(["git", "apply", "--whitespace=nowarn", patch], cwd=d, capture_output=True, text=True)
        if p.returncode != 0:
            print("PATCH DOES NOT APPLY:", p.stderr[:500]); return 2
        env = dict(os.environ, VERIF_REPO=d, VERIF_EVIDENCE=os.path.join(d, "_evidence"))
        if seed:
            env["VERIF_SEED"] = seed
        for pr in props:
            p = subprocess.run([sys.executable, os.path.join(V, "tools", "check.py"), pr, "--tier", tier], cwd=V, env=env,
                               capture_output=True, text=True)
            lines = [l for l in p.stdout.split("\n") if l.startswith(("VIOLATION", "KNOWN-FINDING")) or " tier=" in l]
            print("== %s exit=%d" % (pr, p.returncode))
            for l in lines[:12]:
                print("   " + l[:300])
            if len(lines) > 12:
                print("   ... %d more lines" % (len(lines) - 12))
            # keep the first replay for inspection
            for l in lines:
                if l.startswith("VIOLATION") and "replay=" in l:
                    rp = l.split("replay=")[1].split()[0]
                    if os.path.exists(rp):
                        keep = os.path.join("/var/tmp", "mutant-replay-%s-%s" % (pr, os.path.basename(rp)))
                        shutil.copy(rp, keep)
                        print("   first replay kept at", keep)
                    break
            rc_all |= p.returncode
    finally:
        shutil.rmtree(d, ignore_errors=True)
        # the checks regenerated Gen_leaf.v / StrassenGen.v / GenSites.v / GenGlobals.v from the patched copy:
        # regenerate them from /repo again so that /verif/coq describes the real tree
        env = dict(os.environ)
        env.pop("VERIF_REPO", None)
        subprocess.run([sys.executable, "-c", "import sys; sys.path.insert(0, %r); import vlib\n"
                        "for k in ('T1', 'T1t', 'T2', 'T3sites', 'T3globals'): vlib.regen(k)" % os.path.join(V, "tools")],
                       cwd=V, env=env, capture_output=True, text=True)
    return 0


sys.exit(main())
