"""Correspondence runs: the same op scripts through c/harness (real library) and ocaml/driver
(extracted Coq models); per-case comparison; shrinking helpers."""
import os, random, subprocess, time
import vlib


class Case:
    __slots__ = ("id", "lines", "meta")

    def __init__(self, id, lines, meta=None):
        self.id, self.lines, self.meta = id, lines, meta or {}

    def text(self):
        return "case %s\n%s\nend\n" % (self.id, "\n".join(self.lines))


def parse_out(text):
    """-> dict id -> (fate, [lines])"""
    res, cur, lines = {}, None, []
    for line in text.split("\n"):
        if line.startswith("case "):
            cur, lines = line[5:].strip(), []
        elif line.startswith("fate ") and cur is not None:
            res[cur] = (line.split()[1] if len(line.split()) > 1 else "?", lines, line)
            cur = None
        elif cur is not None and line.strip():
            lines.append(line.rstrip())
    return res


_script_n = [0]


def run_side(exe, cases, timeout_case=20, env=None, shard=1):
    """Run cases through an interpreter binary, sharded over processes. Returns dict id -> (fate, lines, fateline)"""
    if not cases:
        return {}
    shard = max(1, min(shard, len(cases)))
    procs = []
    for k in range(shard):
        part = cases[k::shard]
        _script_n[0] += 1
        path = os.path.join(vlib.scratch(), "script-%d.txt" % _script_n[0])
        with open(path, "w") as fh:
            for c in part:
                fh.write(c.text())
        e = dict(os.environ)
        if env:
            e.update(env)
        procs.append(subprocess.Popen([exe, path, str(timeout_case)], stdout=subprocess.PIPE, stderr=subprocess.PIPE,
                                      text=True, errors="replace", env=e))
    out = {}
    for p in procs:
        so, se = p.communicate()
        out.update(parse_out(so))
    return out


def compare(cases, cout, mout, ignore_unsupported=True):
    """-> list of (case, why, c, m) for cases whose observable outputs differ."""
    bad = []
    for c in cases:
        co = cout.get(c.id)
        mo = mout.get(c.id)
        if co is None or mo is None:
            bad.append((c, "missing output (%s)" % ("C" if co is None else "model"), co, mo))
            continue
        if mo[0] == "UNSUPPORTED":
            if not ignore_unsupported:
                bad.append((c, "model unsupported", co, mo))
            continue
        if mo[0] == "MODELERROR":
            bad.append((c, "model error", co, mo))
            continue
        if co[0] != mo[0]:
            bad.append((c, "fate C=%s model=%s" % (co[0], mo[0]), co, mo))
            continue
        if co[0] == "DIE":
            continue   # both refuse the call: outputs before the call were compared? nothing printed after
        if co[1] != mo[1]:
            # find first differing line
            k = 0
            while k < min(len(co[1]), len(mo[1])) and co[1][k] == mo[1][k]:
                k += 1
            bad.append((c, "output line %d differs" % k, co, mo))
    return bad


def describe(case, why, co, mo, limit=2000):
    def short(l):
        return [x if len(x) < 400 else x[:400] + "..." for x in l]
    s = "correspondence mismatch: %s\nmeta: %r\n--- script\n%s--- C side\n%s\n%s\n--- model side\n%s\n%s\n" % (
        why, case.meta, case.text(), "\n".join(short(co[1])) if co else "(none)", co[2] if co else "",
        "\n".join(short(mo[1])) if mo else "(none)", mo[2] if mo else "")
    return s


class Runner:
    """Builds the harness for a variant and the driver once; runs batches."""

    def __init__(self, variant=None, wrap=False):
        self.variant = variant or vlib.variant()
        if wrap:
            bdir = vlib.build_lib(self.variant)
            self.harness = vlib.build_harness(self.variant, out=os.path.join(bdir, "harness_wrap"), extra=["-DHARNESS_WRAP"],
                                              wrap=["posix_memalign", "malloc", "free"])
        else:
            self.harness = vlib.build_harness(self.variant)
        self.driver = vlib.build_driver()
        self.c_time = 0.0
        self.m_time = 0.0

    def run(self, cases, env=None, shard=vlib.NPROC, timeout_case=20):
        t = time.time()
        e = dict(env or {})
        if self.variant["san"] == "asan":
            e.setdefault("ASAN_OPTIONS", "detect_leaks=0:abort_on_error=0:allocator_may_return_null=1")
            e.setdefault("UBSAN_OPTIONS", "print_stacktrace=0")
        cout = self._retry_timeouts(cases, run_side(self.harness, cases, timeout_case, e, shard), timeout_case, e)
        self.c_time += time.time() - t
        t = time.time()
        # the models of the cache-dependent routes take the build's PLE cut-off (words) from the environment
        import ops
        mout = run_side(self.driver, cases, timeout_case, {"VERIF_PLE_CUTOFF": str(ops.ple_cutoff_words(self.variant))}, shard)
        self.m_time += time.time() - t
        return cout, mout

    def run_c(self, cases, env=None, shard=vlib.NPROC, timeout_case=20):
        e = dict(env or {})
        if self.variant["san"] == "asan":
            e.setdefault("ASAN_OPTIONS", "detect_leaks=0:abort_on_error=0:allocator_may_return_null=1")
        return self._retry_timeouts(cases, run_side(self.harness, cases, timeout_case, e, shard), timeout_case, e)

    def _retry_timeouts(self, cases, out, timeout_case, env):
        """A per-case wall-clock limit on a loaded machine can expire for a call that is not hanging: every case that
        timed out (or produced no output) is run again alone with six times the limit; only a repeated TIMEOUT stands."""
        again = [c for c in cases if out.get(c.id) is None or out[c.id][0] in ("TIMEOUT", "MISSING")]
        if again and len(again) <= 40:
            out2 = run_side(self.harness, again, 6 * timeout_case, env, 1)
            for c in again:
                if out2.get(c.id) is not None:
                    out[c.id] = out2[c.id]
        return out


def run_model(cases, shard=vlib.NPROC):
    return run_side(vlib.build_driver(), cases, 60, None, shard)
