#!/usr/bin/env python3
"""print the markdown table of seeded changes (DESIGN.md section 0.4) from seeded/*/meta.json"""
import glob, json, os
V = os.path.dirname(os.path.dirname(os.path.abspath(__file__)))
print("| seeded change | property | needs, to manifest | outcome of the checks |")
print("|---|---|---|---|")
for d in sorted(glob.glob(os.path.join(V, "seeded", "*"))):
    m = json.load(open(os.path.join(d, "meta.json")))
    print("| `%s` | %s | %s | %s |" % (os.path.basename(d), m["property"], m["needs_to_manifest"].replace("|", "/"), m["checks_run"].replace("|", "/")))
