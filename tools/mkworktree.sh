#!/bin/sh
# usage: mkworktree.sh NAME  -> /tmp/mut/NAME : scratch git worktree of /repo HEAD with the (untracked) autotools build files
set -e
d=/tmp/mut/$1
mkdir -p /tmp/mut
git -C /repo worktree add -q "$d" HEAD
rsync -a --exclude .git --exclude '*.o' --exclude '*.lo' --exclude .libs --exclude '*.trs' --exclude '*.log' /repo/ "$d"/
echo "$d"
