#!/usr/bin/env python3
"""Translator T3 (C15): writable objects of static storage duration of the THREAD-SAFE build of
/repo's working tree and the functions that store to them  ->  coq/Sys/GenGlobals.v

METHOD.  Two independent passes over the thread-safe configuration (vlib.variant(threadsafe=1):
__M4RI_ENABLE_MMC = __M4RI_ENABLE_MZD_CACHE = 0, exactly what configure --enable-thread-safe sets):

 (1) OBJECT pass.  The 17 library sources are compiled (gcc, the flags of every other check) and
     `objdump -t` of every .o is read: each symbol that is not a section/file symbol and lives in a
     writable data section (.data*, .bss*, .tdata*, .tbss*, *COM*; .data.rel.ro* excluded: read-only
     after relocation) is an object.  Function-local statics show up as `name.N` — N is stripped.
 (2) AST pass.  clang 14 JSON AST of every source under the same configuration.  Every VarDecl with
     static storage duration (file scope, or block scope with `static`/`extern`) that is defined in
     some translation unit of the library (not a bare `extern` declaration such as libc's stdout) and
     not const-qualified at top level is an object as well (so a static the optimiser removed today is
     still in the table).  For every function body, a reference (DeclRefExpr) to such a variable
     makes the function a WRITER of it unless the reference is a plain load:
         climb from the reference through ( ), `.field`, and `array[i]` (array-to-pointer decay
         followed by a subscript); the result must be the operand of an lvalue-to-rvalue conversion
         (a read) or of sizeof/alignof.
     Everything else — left-hand side of =, op=, ++/--, address taken, array passed to a function
     (memset(buf, ..)), … — counts as a store (conservative: store OR escape).  In addition a store
     whose address expression is ROOTED in a static object (`glob[k]->f[i] = v`, `*glob = v`:
     descend from the assigned lvalue through [ ], ->, ., *, casts, pointer +/-) makes the function
     a writer, so that stores into the heap tables hanging off `m4ri_codebook` are attributed too.

The table is the union of both passes, one entry per object name (objects of (1) that the AST pass
cannot name get the writer "?unknown", which no theorem accepts).  `Sys/ConcGlobals.v` proves
`globals_ok`: every writer set is contained in the load/unload-time functions.

LIMITS (stated in Properties_C15.v): a store through a local alias of a table pointer
(`int *p = m4ri_codebook[k]->ord; p[i] = 0;`) is not attributed; inline assembly is not looked at.
Those are left to the ThreadSanitizer run of tools/props/c15.py."""
import json, os, re, subprocess, sys
from concurrent.futures import ProcessPoolExecutor

sys.path.insert(0, os.path.dirname(os.path.abspath(__file__)))
import vlib

OUT = os.path.join(vlib.COQ, "Sys", "GenGlobals.v")
WRITABLE = re.compile(r"^(\.data|\.bss|\.tdata|\.tbss)(\.|$)|^\*COM\*$")
RELRO = re.compile(r"^\.data\.rel\.ro")


def ts_variant():
    return vlib.variant(name="ts", threadsafe=1)


# ----------------------------------------------------------------------------------------------
# (1) object pass
# ----------------------------------------------------------------------------------------------
def object_pass(bdir):
    objs = []
    for s in vlib.LIB_SOURCES:
        o = os.path.join(bdir, s + ".o")
        if not os.path.exists(o):
            continue
        p = vlib.run(["objdump", "-t", o], check=True)
        for line in p.stdout.split("\n"):
            # 0000000000000000 g     O .bss	0000000000000008 m4ri_codebook
            m = re.match(r"^([0-9a-f]+) (.{7}) (\S+)\s+([0-9a-f]+)\s+(?:\.hidden\s+|0x[0-9a-f]+\s+)?(\S+)\s*$", line)
            if not m:
                continue
            flags, sec, size, name = m.group(2), m.group(3), int(m.group(4), 16), m.group(5)
            if "d" in flags[5:] or "f" in flags[5:] or "F" in flags[5:]:      # section / file / function symbol
                continue
            if not WRITABLE.match(sec) or RELRO.match(sec):
                continue
            if name.startswith(".") or name == sec:
                continue
            objs.append(dict(obj=s + ".o", section=sec, size=size, sym=name, name=re.sub(r"\.\d+$", "", name)))
    return objs


# ----------------------------------------------------------------------------------------------
# (2) AST pass
# ----------------------------------------------------------------------------------------------
def top_const(qt):
    t = re.sub(r"(\s*\[[^\]]*\])+\s*$", "", qt).strip()
    if "*" in t:
        return "const" in t[t.rindex("*"):]
    return re.search(r"\bconst\b", t) is not None


def scan_tu(args):
    bdir, flags, src = args
    p = subprocess.run(["clang", "-fsyntax-only", "-w", "-Xclang", "-ast-dump=json"] + flags + [src],
                       stdout=subprocess.PIPE, stderr=subprocess.PIPE)
    if p.returncode != 0:
        return dict(error="clang failed on %s: %s" % (src, p.stderr.decode(errors="replace")[-1500:]))
    ast = json.loads(p.stdout)
    del p
    statics = {}      # decl id -> (name, const, where)
    writers = {}      # name -> set(function)
    readers = {}

    def note_static(n, where):
        # a declaration `extern T x;` without initialiser is not a definition (libc's stdout, optarg, ...)
        defined = not (n.get("storageClass") == "extern" and "init" not in n)
        statics[n["id"]] = (n.get("name", "?"), top_const(n.get("type", {}).get("qualType", "")), where, defined)

    # first sweep: declarations (ids are needed before the bodies that use them; a block-scope
    # static is declared before its uses, file-scope ones may be declared later in the file)
    def sweep(n, fn):
        k = n.get("kind")
        if k == "VarDecl":
            if fn is None:
                note_static(n, "file scope")
            elif n.get("storageClass") in ("static", "extern"):
                note_static(n, "local static of " + fn)
        if k == "FunctionDecl":
            fn = n.get("name", "?")
        for c in n.get("inner", []) or []:
            if isinstance(c, dict):
                sweep(c, fn)

    sweep(ast, None)

    def ref_static(n):
        if n.get("kind") != "DeclRefExpr":
            return None
        rd = n.get("referencedDecl") or {}
        if rd.get("kind") != "VarDecl":
            return None
        if rd.get("id") in statics:
            return statics[rd["id"]][0]
        return None

    def is_load(stack):
        """stack[-1] is the DeclRefExpr; decide whether the reference is a plain read."""
        i = len(stack) - 1
        while i > 0:
            cur, par = stack[i], stack[i - 1]
            pk = par.get("kind")
            if pk == "ParenExpr":
                i -= 1
            elif pk == "MemberExpr" and not par.get("isArrow"):
                i -= 1
            elif pk == "ImplicitCastExpr" and par.get("castKind") == "ArrayToPointerDecay" and i >= 2 and \
                    stack[i - 2].get("kind") == "ArraySubscriptExpr" and stack[i - 2].get("inner", [None])[0] is par:
                i -= 2
            elif pk == "ImplicitCastExpr" and par.get("castKind") == "NoOp":
                i -= 1
            else:
                break
        if i == 0:
            return False
        par = stack[i - 1]
        if par.get("kind") == "ImplicitCastExpr" and par.get("castKind") == "LValueToRValue":
            return True
        if par.get("kind") == "UnaryExprOrTypeTraitExpr":
            return True
        return False

    def root_static(e):
        """static object in which the address expression of lvalue e is rooted, if any"""
        while isinstance(e, dict):
            k = e.get("kind")
            if k == "DeclRefExpr":
                return ref_static(e)
            inner = [c for c in (e.get("inner") or []) if isinstance(c, dict)]
            if not inner:
                return None
            if k in ("ParenExpr", "ArraySubscriptExpr", "MemberExpr", "ImplicitCastExpr", "CStyleCastExpr"):
                e = inner[0]
            elif k == "UnaryOperator" and e.get("opcode") in ("*", "&", "++", "--"):
                e = inner[0]
            elif k == "BinaryOperator" and e.get("opcode") in ("+", "-"):
                e = inner[0]
            else:
                return None
        return None

    def walk(n, fn, stack):
        k = n.get("kind")
        if k == "FunctionDecl":
            fn = n.get("name", "?")
        stack.append(n)
        if fn is not None:
            v = ref_static(n)
            if v is not None:
                (readers if is_load(stack) else writers).setdefault(v, set()).add(fn)
            if (k == "BinaryOperator" and (n.get("opcode", "") == "=")) or k == "CompoundAssignOperator" or \
                    (k == "UnaryOperator" and n.get("opcode") in ("++", "--")):
                inner = [c for c in (n.get("inner") or []) if isinstance(c, dict)]
                if inner:
                    r = root_static(inner[0])
                    if r is not None:
                        writers.setdefault(r, set()).add(fn)
        for c in n.get("inner", []) or []:
            if isinstance(c, dict):
                walk(c, fn, stack)
        stack.pop()

    sys.setrecursionlimit(100000)
    walk(ast, None, [])
    return dict(statics=sorted(set(statics.values())), writers={k: sorted(v) for k, v in writers.items()},
                readers={k: sorted(v) for k, v in readers.items()})


def ast_pass(bdir, v):
    flags = [f for f in vlib.cflags(v) if not f.startswith(("-O", "-g", "-fsanitize", "-fno-"))] + ["-I" + bdir]
    jobs = [(bdir, flags, os.path.join(bdir, "m4ri", s + ".c")) for s in vlib.LIB_SOURCES
            if os.path.exists(os.path.join(bdir, "m4ri", s + ".c"))]
    with ProcessPoolExecutor(max_workers=min(vlib.NPROC, len(jobs))) as ex:
        res = list(ex.map(scan_tu, jobs))
    statics, writers, readers = {}, {}, {}
    for r in res:
        if "error" in r:
            raise vlib.BuildError(r["error"])
        for name, const, where, defined in r["statics"]:
            e = statics.setdefault(name, dict(const=True, where=set(), defined=False))
            e["const"] = e["const"] and const
            e["defined"] = e["defined"] or defined
            if defined:
                e["where"].add(where)
        for k, fs in r["writers"].items():
            writers.setdefault(k, set()).update(fs)
        for k, fs in r["readers"].items():
            readers.setdefault(k, set()).update(fs)
    return statics, writers, readers


# ----------------------------------------------------------------------------------------------
# table
# ----------------------------------------------------------------------------------------------
def coq_str(s):
    return '"' + s.replace('"', '""') + '"'


def extract():
    v = ts_variant()
    bdir = vlib.build_lib(v)
    objs = object_pass(bdir)
    statics, writers, readers = ast_pass(bdir, v)
    table = {}
    for o in objs:
        e = table.setdefault(o["name"], dict(src=[], writers=set(), readers=set()))
        e["src"].append("%s %s %d bytes (%s)" % (o["obj"], o["section"], o["size"], o["sym"]))
        if o["name"] in statics:
            e["writers"].update(writers.get(o["name"], ()))
        else:
            e["writers"].add("?unknown")
    for name, st in statics.items():
        if st["const"] or not st["defined"]:
            continue
        e = table.setdefault(name, dict(src=[], writers=set(), readers=set()))
        e["src"].append("AST: " + ", ".join(sorted(st["where"])))
        e["writers"].update(writers.get(name, ()))
    for name, e in table.items():
        e["readers"].update(readers.get(name, ()))
    return table


def render(table):
    L = ["(* GENERATED by tools/globals_extract.py from the working tree of the repository -- do not edit.",
         "   Objects of static storage duration that are writable in the thread-safe build",
         "   (__M4RI_ENABLE_MMC = __M4RI_ENABLE_MZD_CACHE = 0), each with the set of functions that contain a",
         "   store to it (or let its address escape).  Method and limits: see tools/globals_extract.py. *)",
         "From Coq Require Import List String.", "Import ListNotations.", "Local Open Scope string_scope.", ""]
    L.append("Definition globals : list (string * list string) := [")
    names = sorted(table)
    for i, n in enumerate(names):
        e = table[n]
        L.append("  (* %s; read by %d function(s) *)" % ("; ".join(e["src"]), len(e["readers"])))
        L.append("  (%s, [%s])%s" % (coq_str(n), "; ".join(coq_str(w) for w in sorted(e["writers"])),
                                    ";" if i + 1 < len(names) else ""))
    L.append("].")
    L.append("")
    return "\n".join(L)


def regenerate():
    table = extract()
    changed = vlib.write_if_changed(OUT, render(table))
    return table, changed


if __name__ == "__main__":
    t, ch = regenerate()
    for n in sorted(t):
        print(n, sorted(t[n]["writers"]), t[n]["src"])
    print("GenGlobals.v", "rewritten" if ch else "unchanged")
