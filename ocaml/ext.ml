(* ocaml/ext.ml — operations of the op-script language whose models live outside Lin/ and Alg/Gauss.v:
   PLE/PLUQ (C03), TRSM (C04), inversion (C05), solving (C06), kernel (C07), the Tier-A checker
   commands chk_*, the Tier-B multiplication routes (C01) and the file I/O models (C18).
   [init] receives the environment accessors of the driver.

   Build-dependent constants of the faithful models come from the environment of the driver
   (set by the engines per library variant; the defaults describe the host build at the sizes the
   generic engines use, where no cache-dependent regime is entered):
     VERIF_PLE_CUTOFF   __M4RI_PLE_CUTOFF in words  = MIN(524288, L3 >> 3)       (ple.h:40) *)
open M4model
open Conv

type hooks = {
  get_mat : string -> mat;
  set_mat : string -> mat -> unit;
  deliver : string -> string -> mat -> unit;
  get_perm_list : string -> nat list;
  set_perm_list : string -> nat list -> unit;
  bind_null : string -> unit;
  bind_owned : string -> mat -> unit;
  is_window : string -> bool;
}

let h : hooks option ref = ref None
let init hk = h := Some hk
let hk () = match !h with Some x -> x | None -> failwith "ext not initialised"

let env_int name dflt = match Sys.getenv_opt name with
  | Some s -> (try int_of_string s with _ -> dflt) | None -> dflt
let ple_cutoff () = nat_of_int (min 524288 (env_int "VERIF_PLE_CUTOFF" 524288))

let ni = nat_of_int
let nri m = int_of_nat m.nr
let nci m = int_of_nat m.nc
let die s = raise (Die s)
let ok b = Printf.printf "ok %d\n" (if b then 1 else 0)
let int_of_z (v : z) : int =
  let s = shex_of_z v in
  if s.[0] = '-' then - (int_of_string ("0x" ^ String.sub s 1 (String.length s - 1))) else int_of_string ("0x" ^ s)

(* "ret" as an integer argument = the value of the last ret line *)
let argi (s : string) : int = if s = "ret" then !lastret else int_of_string s

let is_null_name (k : hooks) name = name = "-" || name = "NULL"


(* ---------------------------------------------------------------------------------------------------
   Tier B (tools/props/tierb.py): "call tb_<op> args" runs the ALGORITHM-FAITHFUL model of <op> (same
   arguments as "call <op> args", which runs the specification) with the constants of the build under test.
   The constants come from the script line  consts K=V ...  (the C side checks the same line against its
   own macros).  Automatic table parameters are computed as the C code computes them (floating point
   log2 / round on the cache sizes and the shape); by the theorems they do not influence any result.
   A model that does not return a result ends the case with  fate TB-DIE | TB-OOB | TB-UB | TB-FUEL |
   TB-NONE  (None of an option-valued model: "the C call does not return normally"). *)
exception Tb_err of string

let consts : (string, int) Hashtbl.t = Hashtbl.create 16
let set_consts (toks : string array) =
  Array.iteri (fun j t ->
      if j > 0 then match String.index_opt t '=' with
        | Some p -> Hashtbl.replace consts (String.sub t 0 p) (int_of_string (String.sub t (p + 1) (String.length t - p - 1)))
        | None -> failwith ("consts: " ^ t)) toks
let print_consts () =
  let l = List.sort compare (Hashtbl.fold (fun k v acc -> (k, v) :: acc) consts []) in
  Printf.printf "consts%s\n" (String.concat "" (List.map (fun (k, v) -> Printf.sprintf " %s=%d" k v) l))
let const name = match Hashtbl.find_opt consts name with
  | Some v -> v
  | None -> failwith ("build constant " ^ name ^ " not given (no consts line in the script)")

let log2_floor v = let rec go v r = if v <= 1 then r else go (v lsr 1) (r + 1) in go v 0   (* graycode.h:151 *)
let width_of (x : mat) = (nci x + 63) / 64
let clamp lo hi v = if v < lo then lo else if v > hi then hi else v
(* brilliantrussian.c:1094-1103 (k == 0 of _mzd_mul_m4rm), before the clip to 2..8 *)
let m4rm_auto_k (a : mat) (b : mat) : nat =
  let l2 = const "L2" and w = max 1 (width_of b) in
  let k = max 0 (int_of_float (Float.log2 (float (l2 / 64) /. float w))) in
  let k = if l2 - 64 * (1 lsl k) * w > 64 * (1 lsl (k + 1)) * w - l2 then k + 1 else k in
  let klog = int_of_float (Float.round (0.75 *. float (log2_floor (min (min (nri a) (nci a)) (nci b))))) in
  ni (max 0 (if klog < k then klog else k))
(* graycode.c:75 m4ri_opt_k; brilliantrussian.c:642-646 / 851-855 *)
let opt_k a b = min (const "MAXKAY") (max 1 (int_of_float (0.75 *. float (1 + log2_floor (min a b)))))
let m4ri_auto_k nrows ncols =
  let k = min 7 (opt_k nrows ncols) in
  if k > 1 && 0.75 *. float (1 lsl k) *. float ncols > float (const "L3") /. 2.0 then k - 1 else k
(* ple_russian.c:391-402 (k == 0 of _mzd_ple_russian) *)
let ple_auto_k (x : mat) =
  let k = int_of_float (Float.log2 (float (const "L2" / 8) /. float (max 1 (width_of x)) /. 7.0)) in
  let klog = int_of_float (Float.round (0.75 *. float (log2_floor (min (nri x) (nci x))))) in
  clamp 2 8 (if klog < k then klog else k)
(* triangular_russian.c:387-391 (k == 0 of mzd_trtri_upper_russian) *)
let trtri_auto_k (x : mat) =
  let k = min 7 (opt_k (nri x) (nci x)) in
  max 1 (if 0.75 *. float (1 lsl k) *. float (nci x) > float (const "L3") /. 2.0 then k - 1 else k)
(* triangular_russian.c:55-66 / 209-219 *)
let trsm_auto_k (b : mat) =
  let k = int_of_float (Float.log2 (float (const "L2" / 8) /. float (max 1 (width_of b)) /. 8.0)) in
  let klog = int_of_float (Float.round (0.75 *. float (log2_floor (min (nri b) (nci b))))) in
  clamp 2 8 (if klog < k then klog else k)
let tri_cfg () = x_mkcfg (ni (const "MUL_BLOCKSIZE")) (n_of_hex (Printf.sprintf "%x" (2 * const "L3"))) (const "SSE2" <> 0)
(* mzd.c:1815 _mzd_density(A, 32, 0, 0) on an owned matrix *)
let pc_hex (s : string) =
  let c = ref 0 in
  String.iter (fun ch -> let v = hexval ch in c := !c + (v land 1) + ((v lsr 1) land 1) + ((v lsr 2) land 1) + (v lsr 3)) s; !c
let density32 (a : mat) : float =
  let nr_ = nri a and nc_ = nci a in
  let w = width_of a in
  if w <= 1 then
    float (List.fold_left (fun acc r -> acc + pc_hex (hex_of_n r)) 0 a.rows) /. (1.0 *. float nc_ *. float nr_)
  else begin
    let count = ref 0 and total = ref 0 in
    List.iter (fun r ->
        let h = hex_of_n r in
        let len = String.length h in
        (* word j of the row (16 hex digits, least significant word last in the string) *)
        let word j =
          let hi = len - 16 * j and lo = len - 16 * (j + 1) in
          if hi <= 0 then "" else String.sub h (max 0 lo) (hi - max 0 lo) in
        count := !count + pc_hex (word 0); total := !total + 64;
        let j = ref 1 in
        while !j < w - 1 do count := !count + pc_hex (word !j); total := !total + 64; j := !j + 32 done;
        if nc_ mod 64 <> 0 then begin count := !count + pc_hex (word (nc_ / 64)); total := !total + nc_ mod 64 end) a.rows;
    float !count /. float !total
  end

let tb_code = function 1 -> "TB-DIE" | 2 -> "TB-OOB" | 3 -> "TB-UB" | 4 -> "TB-FUEL" | _ -> "TB-NONE"
let tb_res ((c, o) : nat * mat option) : mat = match o with
  | Some r when int_of_nat c = 0 -> r
  | _ -> raise (Tb_err (tb_code (int_of_nat c)))
let tb_opt (o : 'a option) : 'a = match o with Some r -> r | None -> raise (Tb_err "TB-NONE")
let z_of_int (v : int) : z = if v < 0 then x_z_opp (x_z_of_nat (ni (- v))) else x_z_of_nat (ni v)

let dispatch_ext (op : string) (a : string array) : unit =
  let k = hk () in
  let m i = k.get_mat a.(i) in
  let i j = argi a.(j) in
  let plist j = k.get_perm_list a.(j) in
  let put_ple (name_a, name_p, name_q) (((r, a'), (p, q)) : ple_out) =
    k.set_mat name_a a'; k.set_perm_list name_p p; k.set_perm_list name_q q; print_ret (int_of_nat r) in
  match op with
  (* ------------------------------------------------------------------ C03 *)
  (* every route = the block recursion of ple.c over a base case; all base cases (naive, Four
     Russians for every k) return what the naive routine returns *)
  | "ple" | "_ple" | "pluq" | "_pluq" ->
    let x = m 1 and p0 = plist 2 and q0 = plist 3 in
    if op = "ple" || op = "pluq" then begin
      if List.length p0 <> nri x then die "P length";
      if List.length q0 <> nci x then die "Q length" end;
    let out = if op = "ple" || op = "_ple" then x_ple_rec x_ple_naive (ple_cutoff ()) x p0 q0
      else x_pluq_rec x_ple_naive (ple_cutoff ()) x p0 q0 in
    put_ple (a.(1), a.(2), a.(3)) out
  | "_ple_naive" | "_ple_russian" ->
    put_ple (a.(1), a.(2), a.(3)) (x_ple_naive (m 1) (plist 2) (plist 3))
  | "_pluq_naive" ->
    put_ple (a.(1), a.(2), a.(3)) (x_pluq_naive (m 1) (plist 2) (plist 3))
  | "_pluq_russian" ->
    put_ple (a.(1), a.(2), a.(3)) (x_pluq_of_ple (x_ple_naive (m 1) (plist 2) (plist 3)))
  (* Tier A: the verified checkers on the implementation's output.  chk_ple A0 A' P Q r *)
  | "chk_ple" -> ok (x_ple_ok (m 1) ((ni (i 5), m 2), (plist 3, plist 4)))
  | "chk_pluq" -> ok (x_pluq_ok (m 1) ((ni (i 5), m 2), (plist 3, plist 4)))
  (* ------------------------------------------------------------------ C04 *)
  | "trsm_lower_left" | "_trsm_lower_left" | "trsm_upper_left" | "_trsm_upper_left" ->
    let t = m 1 and b = m 2 in
    if op.[0] <> '_' then begin
      if nci t <> nri b then die "dims";
      if nri t <> nci t then die "square" end;
    k.set_mat a.(2) ((if op = "trsm_lower_left" || op = "_trsm_lower_left" then x_trsm_lower_left else x_trsm_upper_left) t b)
  | "trsm_lower_right" | "_trsm_lower_right" | "trsm_upper_right" | "_trsm_upper_right" ->
    let t = m 1 and b = m 2 in
    if op.[0] <> '_' then begin
      if nri t <> nci b then die "dims";
      if nri t <> nci t then die "square" end;
    k.set_mat a.(2) ((if op = "trsm_lower_right" || op = "_trsm_lower_right" then x_trsm_lower_right else x_trsm_upper_right) t b)
  (* ------------------------------------------------------------------ C05 *)
  | "inv_m4ri" ->
    (* inv_m4ri RET DST A k : the unique inverse; for singular A the faithful model (no NULL, the
       transformation matrix of the reduction) *)
    let x = m 3 in
    let r = match x_inv_m4ri_model x with Some b -> b | None -> x_inv_m4ri_faithful (ni (i 4)) x in
    if a.(2) <> "-" then k.set_mat a.(2) (mcopy_into (m 2) r) else k.deliver a.(1) a.(2) r
  | "invert_naive" ->
    let x = m 3 and id = m 4 in
    if nri x <> nri id then die "concat";
    (match x_invert_naive_model x id with
     | None -> if a.(2) = "-" then k.bind_null a.(1)
     | Some r -> if a.(2) <> "-" then k.set_mat a.(2) (mcopy_into (m 2) r) else k.deliver a.(1) a.(2) r)
  | "trtri_upper" | "trtri_upper_russian" -> k.set_mat a.(1) (x_trtri_upper_simple (m 1))
  (* ------------------------------------------------------------------ C06 *)
  | "solve_left" ->
    (* solve_left A B cutoff check : A is overwritten by its PLUQ factorisation unless the padding
       pre-check returns early; B by the faithful model (X when the verdict is 0) *)
    let x = m 1 and b = m 2 in
    let check = i 4 <> 0 in
    (match x_solve_left_cfg (ple_cutoff ()) (ni (max 0 (i 3))) check x b with
     | None -> die "solve_left dims"
     | Some (ret, b') ->
       let early = check && nri x < nri b && not (is_zero (msub b x.nr O (ni (nri b - nri x)) b.nc)) in
       if not early then begin
         let ((_, a'), _) = x_pluq_rec x_ple_naive (ple_cutoff ()) x (List.init (nri x) ni) (List.init (nci x) ni) in
         k.set_mat a.(1) a' end;
       k.set_mat a.(2) b';
       print_ret (int_of_z ret))
  | "pluq_solve_left" ->
    (* pluq_solve_left A rank P Q B cutoff check *)
    let x = m 1 and b = m 5 in
    (match x_pluq_solve_left_model (ni (max 0 (i 6))) (i 7 <> 0) x (ni (i 2)) (plist 3) (plist 4) b with
     | None -> die "pluq_solve_left dims"
     | Some (ret, b') -> k.set_mat a.(5) b'; print_ret (int_of_z ret))
  (* Tier A.  chk_solve A0 B0 X ret check *)
  | "chk_solve" -> ok (x_solve_ok (m 1) (m 2) (m 3) (i 4 = 0) (i 5 <> 0))
  (* ------------------------------------------------------------------ C07 *)
  | "kernel_left_pluq" ->
    (* kernel_left_pluq RET A cutoff *)
    let x = m 2 in
    let ((_, a'), _) = x_pluq_rec x_ple_naive (ple_cutoff ()) x (List.init (nri x) ni) (List.init (nci x) ni) in
    (match x_kernel_left_cfg (ple_cutoff ()) (ni (max 0 (i 3))) x with
     | None -> die "kernel"
     | Some None -> k.bind_null a.(1)
     | Some (Some r) -> k.bind_owned a.(1) r);
    k.set_mat a.(2) a'
  (* Tier A.  chk_kernel A0 K|NULL *)
  | "chk_kernel" ->
    ok (x_kernel_ok (m 1) (if a.(2) = "NULL" then None else Some (m 2)))
  (* canonical basis of the null space, one vector per ROW (for dumpcanon-style comparisons) *)
  | "kernel_rows" -> k.bind_owned a.(1) (x_kernel_rows (m 2))
  (* ------------------------------------------------------------------ Tier B: C01 *)
  | "tb_mul_naive" | "tb_addmul_naive" | "tb_mul_m4rm" | "tb_addmul_m4rm" ->
    (* same arguments as mul_naive / addmul_naive / mul_m4rm / addmul_m4rm: RET C|- A B [k] *)
    let x = m 3 and y = m 4 in
    let blk = ni (const "MUL_BLOCKSIZE") in
    let copt = if a.(2) = "-" then None else Some (m 2) in
    let r = match op with
      | "tb_mul_naive" -> x_tb_mul_naive blk copt x y
      | "tb_addmul_naive" -> x_tb_addmul_naive blk (m 2) x y
      | "tb_mul_m4rm" -> x_tb_mul_m4rm blk m4rm_auto_k (ni (i 5)) copt x y
      | _ -> x_tb_addmul_m4rm blk m4rm_auto_k (ni (i 5)) (m 2) x y in
    k.deliver a.(1) a.(2) (tb_opt r)
  | "tb_mul" | "tb_addmul" | "tb_mul_mp" | "tb_addmul_mp" | "tb__addmul" ->
    (* RET C|- A B cutoff ; A and B the same object = the squaring route *)
    let x = m 3 and y = m 4 in
    let blk = ni (const "MUL_BLOCKSIZE") and dflt = ni (const "STRASSEN_MUL_CUTOFF") in
    let copt = if a.(2) = "-" then None else Some (m 2) in
    let same = a.(3) = a.(4) in
    let win = List.exists (fun nm -> nm <> "-" && k.is_window nm) [a.(2); a.(3); a.(4)] in
    let mp = const "OPENMP" <> 0 in
    let r = match op with
      | "tb_mul" -> x_tb_mul blk m4rm_auto_k dflt (z_of_int (i 5)) same win copt x y
      | "tb_addmul" -> x_tb_addmul blk m4rm_auto_k dflt (z_of_int (i 5)) same win copt x y
      | "tb__addmul" -> x_tb_addmul_raw blk m4rm_auto_k dflt (ni (i 5)) same win (m 2) x y
      (* builds without OpenMP: the harness calls mzd_mul / mzd_addmul for these *)
      | "tb_mul_mp" -> if mp then x_tb_mul_mp blk m4rm_auto_k dflt (z_of_int (i 5)) copt x y
        else x_tb_mul blk m4rm_auto_k dflt (z_of_int (i 5)) same win copt x y
      | _ -> if mp then x_tb_addmul_mp blk m4rm_auto_k dflt (z_of_int (i 5)) copt x y
        else x_tb_addmul blk m4rm_auto_k dflt (z_of_int (i 5)) same win copt x y in
    k.deliver a.(1) a.(2) (tb_res r)
  | "tb_djb" ->
    (* tb_djb RET A V : the compiled program, then W = 0; apply *)
    let x = m 2 and v = m 3 in
    let ops = tb_opt (x_tb_djb_compile x) in
    Printf.printf "djbops %d%s\n" (List.length ops)
      (String.concat "" (List.map (fun ((t, s), ty) -> Printf.sprintf " %d,%d,%d" (int_of_nat t) (int_of_nat s) (if ty then 1 else 0)) ops));
    k.bind_owned a.(1) (tb_opt (x_tb_djb_apply ops (mzero x.nr v.nc) v))
  | "tb_make_table" ->
    (* tb_make_table M r c k T l0 .. : T and L with arbitrary previous contents *)
    let x = m 1 and t = m 5 in
    let kk = i 4 in
    let l0 = List.init (1 lsl kk) (fun j -> ni (i (6 + j))) in
    let (t', l') = x_tb_make_table x (ni (i 2)) (ni (i 3)) (ni kk) t.rows l0 in
    k.set_mat a.(5) { nr = t.nr; nc = t.nc; rows = t' };
    Printf.printf "ret L%s\n" (String.concat "" (List.map (fun v -> " " ^ string_of_int (int_of_nat v)) l'))
  (* ------------------------------------------------------------------ Tier B: C02 *)
  | "tb_echelonize_m4ri" | "tb__echelonize_m4ri" | "tb_echelonize" ->
    (* echelonize_m4ri A full k | _echelonize_m4ri A full k heuristic threshold | echelonize A full *)
    let x = m 1 and full = i 2 <> 0 in
    let kk = if op = "tb_echelonize" then 0 else i 3 in
    let kk = if kk = 0 then m4ri_auto_k (nri x) (nci x) else kk in
    let heur, thr = match op with
      | "tb_echelonize" -> true, float (const "CROSSOVER_E4") /. 10000.0
      | "tb__echelonize_m4ri" -> i 4 <> 0, float_of_string a.(5)
      | _ -> false, 1.0 in
    (* the density oracle: entry 0 is the test before the loop (_mzd_density(A, 32, 0, 0) >= threshold); the loop
       evaluates it again only once c > 256, on the matrix as reduced so far: not reproduced here *)
    let o0 = heur && nri x > 0 && nci x > 0 && density32 x >= thr in
    if heur && not o0 && nci x > 257 then raise (Unsupported "density oracle beyond column 256");
    let (r, e) = tb_opt (x_tb_hybrid (ni (const "PLE_CUTOFF")) (ni kk) (ni kk) (fun it -> o0 && it = O) full x) in
    k.set_mat a.(1) e; Printf.printf "ret %d\n" (int_of_nat r)
  | "tb_echelonize_pluq" ->
    let (r, e) = x_tb_echelon_pluq (ni (const "PLE_CUTOFF")) (i 2 <> 0) (m 1) in
    k.set_mat a.(1) e; Printf.printf "ret %d\n" (int_of_nat r)
  | "tb_top_echelonize_m4ri" ->
    let x = m 1 in
    let kk = if i 2 = 0 then m4ri_auto_k (nri x) (nci x) else i 2 in
    k.set_mat a.(1) (tb_opt (x_tb_top (ni kk) x))
  (* ------------------------------------------------------------------ C13: row combination from word offsets *)
  | "combine" | "combine_even" ->
    (* combine C cr csb A ar asb B br bsb ; "same" = the pointer comparison C == A of mzd_combine *)
    let same = op = "combine" && a.(1) = a.(4) in
    k.set_mat a.(1) (x_combine same (m 1) (m 4) (m 7) (ni (i 2)) (ni (i 3)) (ni (i 5)) (ni (i 6)) (ni (i 8)) (ni (i 9)))
  | "combine_even_in_place" ->
    (* combine_even_in_place A ar asb B br bsb *)
    k.set_mat a.(1) (x_combine true (m 1) (m 1) (m 4) (ni (i 2)) (ni (i 3)) (ni (i 2)) (ni (i 3)) (ni (i 5)) (ni (i 6)))
  (* ------------------------------------------------------------------ Tier B: C03 *)
  | "tb__ple_russian" | "tb__pluq_russian" ->
    (* _ple_russian A P Q k : the lazy pivot search on the window, the 1..7 tables with M / E / B, k as in C *)
    let x = m 1 in
    let kk = if i 4 = 0 then ple_auto_k x else i 4 in
    let f = if op = "tb__ple_russian" then x_tb_ple_russian else x_tb_pluq_russian in
    put_ple (a.(1), a.(2), a.(3)) (f (ni kk) x (plist 2) (plist 3))
  (* ------------------------------------------------------------------ Tier B: C04 / C05 *)
  | "tb_trsm_lower_left" | "tb__trsm_lower_left" | "tb_trsm_upper_left" | "tb__trsm_upper_left" ->
    let t = m 1 and b = m 2 in
    if op.[3] <> '_' then begin
      if nci t <> nri b then die "dims";
      if nri t <> nci t then die "square" end;
    let f = if op = "tb_trsm_lower_left" || op = "tb__trsm_lower_left" then x_tb_trsm_lower_left else x_tb_trsm_upper_left in
    k.set_mat a.(2) (f (tri_cfg ()) (ni (trsm_auto_k b)) (ni (max 0 (i 3))) t b)
  | "tb_trsm_lower_right" | "tb__trsm_lower_right" | "tb_trsm_upper_right" | "tb__trsm_upper_right" ->
    let t = m 1 and b = m 2 in
    if op.[3] <> '_' then begin
      if nri t <> nci b then die "dims";
      if nri t <> nci t then die "square" end;
    let f = if op = "tb_trsm_lower_right" || op = "tb__trsm_lower_right" then x_tb_trsm_lower_right else x_tb_trsm_upper_right in
    k.set_mat a.(2) (f (tri_cfg ()) (ni (max 0 (i 3))) t b)
  | "tb_trtri_upper" ->
    (* mzd_trtri_upper over the library's own base routine mzd_trtri_upper_russian(A, 0) (faithful model, table
       parameter as triangular_russian.c:387-391 computes it; by C05_trtri_russian it does not influence the result) *)
    let x = m 1 in
    k.set_mat a.(1) (tb_opt (x_tb_trtri_fr (tri_cfg ()) (ni (trtri_auto_k x)) (ni (trsm_auto_k x)) x))
  | "tb_trtri_upper_russian" ->
    (* trtri_upper_russian A k *)
    let x = m 1 in
    let kt = if i 2 = 0 then trtri_auto_k x else i 2 in
    k.set_mat a.(1) (x_tb_trtri_russian (ni kt) x)
  | "tb_inv_m4ri" ->
    (* inv_m4ri RET DST A k : the work matrix is n x 2*64*width, echelonised with the automatic k *)
    let x = m 3 in
    let kk = m4ri_auto_k (nri x) (2 * 64 * width_of x) in
    let r = tb_opt (x_tb_inv_m4ri (ni kk) x) in
    if a.(2) <> "-" then k.set_mat a.(2) (mcopy_into (m 2) r) else k.deliver a.(1) a.(2) r
  (* ------------------------------------------------------------------ C18 *)
  | "io_png" ->     (* io_png n rowhex -> "png <status> <packed> <file> <row>" *)
    let l = x_png_case (ni (i 1)) (n_of_hex a.(2)) in
    Printf.printf "png%s\n" (String.concat "" (List.map (fun v -> " " ^ hex_of_n v) l))
  | "io_pngread" -> (* io_pngread n len filebyteshex(le number) *)
    let l = x_png_read_case (ni (i 1)) (ni (i 2)) (n_of_hex a.(3)) in
    Printf.printf "pngread%s\n" (String.concat "" (List.map (fun v -> " " ^ hex_of_n v) l))
  | "io_pnghdr" ->  (* io_pnghdr depthchk dimschk w h depth ctype interlace *)
    Printf.printf "pnghdr %s\n" (hex_of_n (x_png_header_case (i 1 <> 0) (i 2 <> 0) (ni (i 3)) (ni (i 4)) (ni (i 5)) (ni (i 6)) (ni (i 7))))
  | "io_jcf" ->     (* io_jcf c0..c5 conv m n p nz : tok... (signed hex) *)
    let checks = List.init 6 (fun j -> a.(1).[j] = '1') in
    let hdr = List.init 5 (fun j -> z_of_shex a.(2 + j)) in
    let toks = ref [] in
    for j = Array.length a - 1 downto 8 do toks := z_of_shex a.(j) :: !toks done;
    let l = x_jcf_case checks hdr !toks in
    Printf.printf "jcf%s\n" (String.concat "" (List.map (fun v -> " " ^ shex_of_z v) l))
  | "io_str" ->     (* io_str m n string *)
    let s = if Array.length a > 3 then a.(3) else "" in
    let chars = List.init (String.length s) (fun j -> n_of_hex (Printf.sprintf "%x" (Char.code s.[j]))) in
    let l = x_str_case (ni (i 1)) (ni (i 2)) chars in
    Printf.printf "str%s\n" (String.concat "" (List.map (fun v -> " " ^ hex_of_n v) l))
  | _ -> raise (Unsupported op)
