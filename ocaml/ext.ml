(* ocaml/ext.ml — operations of the op-script language whose models live outside Lin/ and Alg/Gauss.v:
   PLE/PLUQ (C03), TRSM (C04), inversion (C05), solving (C06), kernel (C07), the Tier-A checker
   commands chk_*, the Tier-B multiplication routes (C01) and the file I/O models (C18).
   [init] receives the environment accessors of the driver.

   Build-dependent constants of the faithful models come from the environment of the driver
   (set by the engines per library variant; the defaults describe the host build at the sizes the
   generic engines use, where no cache-dependent regime is entered):
     VERIF_PLE_CUTOFF   __M4RI_PLE_CUTOFF in words  = MIN(524288, L3 >> 3)       (ple.h:40) *)
open M4model
open Conv

type hooks = {
  get_mat : string -> mat;
  set_mat : string -> mat -> unit;
  deliver : string -> string -> mat -> unit;
  get_perm_list : string -> nat list;
  set_perm_list : string -> nat list -> unit;
  bind_null : string -> unit;
  bind_owned : string -> mat -> unit;
}

let h : hooks option ref = ref None
let init hk = h := Some hk
let hk () = match !h with Some x -> x | None -> failwith "ext not initialised"

let env_int name dflt = match Sys.getenv_opt name with
  | Some s -> (try int_of_string s with _ -> dflt) | None -> dflt
let ple_cutoff () = nat_of_int (min 524288 (env_int "VERIF_PLE_CUTOFF" 524288))

let ni = nat_of_int
let nri m = int_of_nat m.nr
let nci m = int_of_nat m.nc
let die s = raise (Die s)
let ok b = Printf.printf "ok %d\n" (if b then 1 else 0)
let int_of_z (v : z) : int =
  let s = shex_of_z v in
  if s.[0] = '-' then - (int_of_string ("0x" ^ String.sub s 1 (String.length s - 1))) else int_of_string ("0x" ^ s)

(* "ret" as an integer argument = the value of the last ret line *)
let argi (s : string) : int = if s = "ret" then !lastret else int_of_string s

let is_null_name (k : hooks) name = name = "-" || name = "NULL"

let dispatch_ext (op : string) (a : string array) : unit =
  let k = hk () in
  let m i = k.get_mat a.(i) in
  let i j = argi a.(j) in
  let plist j = k.get_perm_list a.(j) in
  let put_ple (name_a, name_p, name_q) (((r, a'), (p, q)) : ple_out) =
    k.set_mat name_a a'; k.set_perm_list name_p p; k.set_perm_list name_q q; print_ret (int_of_nat r) in
  match op with
  (* ------------------------------------------------------------------ C03 *)
  (* every route = the block recursion of ple.c over a base case; all base cases (naive, Four
     Russians for every k) return what the naive routine returns *)
  | "ple" | "_ple" | "pluq" | "_pluq" ->
    let x = m 1 and p0 = plist 2 and q0 = plist 3 in
    if op = "ple" || op = "pluq" then begin
      if List.length p0 <> nri x then die "P length";
      if List.length q0 <> nci x then die "Q length" end;
    let out = if op = "ple" || op = "_ple" then x_ple_rec x_ple_naive (ple_cutoff ()) x p0 q0
      else x_pluq_rec x_ple_naive (ple_cutoff ()) x p0 q0 in
    put_ple (a.(1), a.(2), a.(3)) out
  | "_ple_naive" | "_ple_russian" ->
    put_ple (a.(1), a.(2), a.(3)) (x_ple_naive (m 1) (plist 2) (plist 3))
  | "_pluq_naive" ->
    put_ple (a.(1), a.(2), a.(3)) (x_pluq_naive (m 1) (plist 2) (plist 3))
  | "_pluq_russian" ->
    put_ple (a.(1), a.(2), a.(3)) (x_pluq_of_ple (x_ple_naive (m 1) (plist 2) (plist 3)))
  (* Tier A: the verified checkers on the implementation's output.  chk_ple A0 A' P Q r *)
  | "chk_ple" -> ok (x_ple_ok (m 1) ((ni (i 5), m 2), (plist 3, plist 4)))
  | "chk_pluq" -> ok (x_pluq_ok (m 1) ((ni (i 5), m 2), (plist 3, plist 4)))
  (* ------------------------------------------------------------------ C04 *)
  | "trsm_lower_left" | "_trsm_lower_left" | "trsm_upper_left" | "_trsm_upper_left" ->
    let t = m 1 and b = m 2 in
    if op.[0] <> '_' then begin
      if nci t <> nri b then die "dims";
      if nri t <> nci t then die "square" end;
    k.set_mat a.(2) ((if op = "trsm_lower_left" || op = "_trsm_lower_left" then x_trsm_lower_left else x_trsm_upper_left) t b)
  | "trsm_lower_right" | "_trsm_lower_right" | "trsm_upper_right" | "_trsm_upper_right" ->
    let t = m 1 and b = m 2 in
    if op.[0] <> '_' then begin
      if nri t <> nci b then die "dims";
      if nri t <> nci t then die "square" end;
    k.set_mat a.(2) ((if op = "trsm_lower_right" || op = "_trsm_lower_right" then x_trsm_lower_right else x_trsm_upper_right) t b)
  (* ------------------------------------------------------------------ C05 *)
  | "inv_m4ri" ->
    (* inv_m4ri RET DST A k : the unique inverse; for singular A the faithful model (no NULL, the
       transformation matrix of the reduction) *)
    let x = m 3 in
    let r = match x_inv_m4ri_model x with Some b -> b | None -> x_inv_m4ri_faithful (ni (i 4)) x in
    if a.(2) <> "-" then k.set_mat a.(2) (mcopy_into (m 2) r) else k.deliver a.(1) a.(2) r
  | "invert_naive" ->
    let x = m 3 and id = m 4 in
    if nri x <> nri id then die "concat";
    (match x_invert_naive_model x id with
     | None -> if a.(2) = "-" then k.bind_null a.(1)
     | Some r -> if a.(2) <> "-" then k.set_mat a.(2) (mcopy_into (m 2) r) else k.deliver a.(1) a.(2) r)
  | "trtri_upper" -> k.set_mat a.(1) (x_trtri_upper_simple (m 1))
  (* ------------------------------------------------------------------ C06 *)
  | "solve_left" ->
    (* solve_left A B cutoff check : A is overwritten by its PLUQ factorisation unless the padding
       pre-check returns early; B by the faithful model (X when the verdict is 0) *)
    let x = m 1 and b = m 2 in
    let check = i 4 <> 0 in
    (match x_solve_left_cfg (ple_cutoff ()) (ni (max 0 (i 3))) check x b with
     | None -> die "solve_left dims"
     | Some (ret, b') ->
       let early = check && nri x < nri b && not (is_zero (msub b x.nr O (ni (nri b - nri x)) b.nc)) in
       if not early then begin
         let ((_, a'), _) = x_pluq_rec x_ple_naive (ple_cutoff ()) x (List.init (nri x) ni) (List.init (nci x) ni) in
         k.set_mat a.(1) a' end;
       k.set_mat a.(2) b';
       print_ret (int_of_z ret))
  | "pluq_solve_left" ->
    (* pluq_solve_left A rank P Q B cutoff check *)
    let x = m 1 and b = m 5 in
    (match x_pluq_solve_left_model (ni (max 0 (i 6))) (i 7 <> 0) x (ni (i 2)) (plist 3) (plist 4) b with
     | None -> die "pluq_solve_left dims"
     | Some (ret, b') -> k.set_mat a.(5) b'; print_ret (int_of_z ret))
  (* Tier A.  chk_solve A0 B0 X ret check *)
  | "chk_solve" -> ok (x_solve_ok (m 1) (m 2) (m 3) (i 4 = 0) (i 5 <> 0))
  (* ------------------------------------------------------------------ C07 *)
  | "kernel_left_pluq" ->
    (* kernel_left_pluq RET A cutoff *)
    let x = m 2 in
    let ((_, a'), _) = x_pluq_rec x_ple_naive (ple_cutoff ()) x (List.init (nri x) ni) (List.init (nci x) ni) in
    (match x_kernel_left_cfg (ple_cutoff ()) (ni (max 0 (i 3))) x with
     | None -> die "kernel"
     | Some None -> k.bind_null a.(1)
     | Some (Some r) -> k.bind_owned a.(1) r);
    k.set_mat a.(2) a'
  (* Tier A.  chk_kernel A0 K|NULL *)
  | "chk_kernel" ->
    ok (x_kernel_ok (m 1) (if a.(2) = "NULL" then None else Some (m 2)))
  (* canonical basis of the null space, one vector per ROW (for dumpcanon-style comparisons) *)
  | "kernel_rows" -> k.bind_owned a.(1) (x_kernel_rows (m 2))
  (* ------------------------------------------------------------------ C01 Tier B *)
  | "tb_mul_naive" | "tb_addmul_naive" | "tb_mul_m4rm" | "tb_addmul_m4rm" ->
    (* tb_mul_m4rm RET C A B k blk : the faithful route models of Alg/Mul.v; they must agree with A*B *)
    let x = m 3 and y = m 4 in
    let clear = (op = "tb_mul_naive" || op = "tb_mul_m4rm") in
    let c = if a.(2) = "-" then mzero x.nr y.nc else m 2 in
    let r = if op = "tb_mul_naive" || op = "tb_addmul_naive" then x_naive_run (ni (i 5)) clear c x y
      else x_m4rm_run (ni (i 5)) (ni (i 6)) clear c x y in
    (match r with
     | None -> raise (Unsupported "route model undefined on this input")
     | Some r -> k.deliver a.(1) a.(2) r)
  (* ------------------------------------------------------------------ C18 *)
  | "io_png" ->     (* io_png n rowhex -> "png <status> <packed> <file> <row>" *)
    let l = x_png_case (ni (i 1)) (n_of_hex a.(2)) in
    Printf.printf "png%s\n" (String.concat "" (List.map (fun v -> " " ^ hex_of_n v) l))
  | "io_pngread" -> (* io_pngread n len filebyteshex(le number) *)
    let l = x_png_read_case (ni (i 1)) (ni (i 2)) (n_of_hex a.(3)) in
    Printf.printf "pngread%s\n" (String.concat "" (List.map (fun v -> " " ^ hex_of_n v) l))
  | "io_pnghdr" ->  (* io_pnghdr depthchk dimschk w h depth ctype interlace *)
    Printf.printf "pnghdr %s\n" (hex_of_n (x_png_header_case (i 1 <> 0) (i 2 <> 0) (ni (i 3)) (ni (i 4)) (ni (i 5)) (ni (i 6)) (ni (i 7))))
  | "io_jcf" ->     (* io_jcf c0..c5 conv m n p nz : tok... (signed hex) *)
    let checks = List.init 6 (fun j -> a.(1).[j] = '1') in
    let hdr = List.init 5 (fun j -> z_of_shex a.(2 + j)) in
    let toks = ref [] in
    for j = Array.length a - 1 downto 8 do toks := z_of_shex a.(j) :: !toks done;
    let l = x_jcf_case checks hdr !toks in
    Printf.printf "jcf%s\n" (String.concat "" (List.map (fun v -> " " ^ shex_of_z v) l))
  | "io_str" ->     (* io_str m n string *)
    let s = if Array.length a > 3 then a.(3) else "" in
    let chars = List.init (String.length s) (fun j -> n_of_hex (Printf.sprintf "%x" (Char.code s.[j]))) in
    let l = x_str_case (ni (i 1)) (ni (i 2)) chars in
    Printf.printf "str%s\n" (String.concat "" (List.map (fun v -> " " ^ hex_of_n v) l))
  | _ -> raise (Unsupported op)
