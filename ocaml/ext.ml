(* ocaml/ext.ml — operations of the op-script language whose models live outside Lin/ (added as
   the algorithm models are delivered).  [init] receives the environment accessors of the driver. *)
open M4model
open Conv

type hooks = {
  get_mat : string -> mat;
  set_mat : string -> mat -> unit;
  deliver : string -> string -> mat -> unit;
  get_perm_list : string -> nat list;
  set_perm_list : string -> nat list -> unit;
  bind_null : string -> unit;
  bind_owned : string -> mat -> unit;
}

let h : hooks option ref = ref None
let init hk = h := Some hk
let hk () = match !h with Some x -> x | None -> failwith "ext not initialised"

let dispatch_ext (op : string) (a : string array) : unit =
  raise (Unsupported op)
