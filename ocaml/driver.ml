(* ocaml/driver.ml — the same op-script interpreter as c/harness.c, over the extracted Coq models.
   usage: driver <script>    output format identical to the harness (case / lines / fate). *)
open M4model

open Conv

(* ---------- environment ---------- *)
type obj =
  | Owned of mat ref
  | Win of string * int * int * int * int   (* parent, r0, c0, nrows, ncols *)
  | Perm of int array ref
  | Null

let env : (string, obj) Hashtbl.t = Hashtbl.create 64

let rec get_mat name : mat =
  match Hashtbl.find_opt env name with
  | Some (Owned r) -> !r
  | Some (Win (p, r0, c0, nr_, nc_)) ->
    msub (get_mat p) (nat_of_int r0) (nat_of_int c0) (nat_of_int nr_) (nat_of_int nc_)
  | _ -> failwith ("unknown matrix " ^ name)

let rec set_mat name (m : mat) : unit =
  match Hashtbl.find_opt env name with
  | Some (Owned r) -> r := m
  | Some (Win (p, r0, c0, _, _)) ->
    set_mat p (mpaste (get_mat p) (nat_of_int r0) (nat_of_int c0) m)
  | _ -> Hashtbl.replace env name (Owned (ref m))

let is_null name = name = "-" || (match Hashtbl.find_opt env name with Some Null -> true | _ -> false)
let get_perm name = match Hashtbl.find_opt env name with
  | Some (Perm a) -> a | _ -> failwith ("unknown perm " ^ name)
let perm_list name = Array.to_list (Array.map nat_of_int !(get_perm name))
let set_perm name (l : nat list) = (get_perm name) := Array.of_list (List.map int_of_nat l)

let nri m = int_of_nat m.nr
let nci m = int_of_nat m.nc
let ni = nat_of_int

let dump_mat name =
  match Hashtbl.find_opt env name with
  | Some Null -> Printf.printf "mat %s NULL\n" name
  | _ ->
    let m = get_mat name in
    Printf.printf "mat %s %d %d" name (nri m) (nci m);
    List.iter (fun r -> print_char ' '; print_string (hex_of_n r)) m.rows;
    print_newline ()

(* result of an op that returns its destination: written into dst when supplied, bound to ret otherwise *)
let deliver ret dst (m : mat) =
  if dst <> "-" then set_mat dst m
  else if ret <> "-" then Hashtbl.replace env ret (Owned (ref m))

let die s = raise (Die s)
let zero_like m = mzero m.nr m.nc

(* ---------- dispatch ---------- *)
let dispatch (a : string array) =
  let op = a.(0) in
  let i k = int_of_string a.(k) in
  let m k = get_mat a.(k) in
  match op with
  (* ---- C01 ---- *)
  | "mul_naive" | "mul_m4rm" | "mul" | "mul_mp" | "_mul_even" ->
    let x = m 3 and y = m 4 in
    if op <> "_mul_even" && nci x <> nri y then die "dims";
    if op = "mul" || op = "mul_mp" then (if i 5 < 0 then die "cutoff");
    if a.(2) <> "-" then begin
      let c = m 2 in
      if nri c <> nri x || nci c <> nci y then die "C dims" end;
    deliver a.(1) a.(2) (mmul x y)
  | "addmul_naive" | "addmul_m4rm" | "addmul" | "addmul_mp" | "_addmul_even" | "_addmul" ->
    let c = m 2 and x = m 3 and y = m 4 in
    if op <> "_addmul_even" && op <> "_addmul" && nci x <> nri y then die "dims";
    if nri c <> nri x || nci c <> nci y then die "C dims";
    if op = "addmul" || op = "addmul_mp" then (if i 5 < 0 then die "cutoff");
    deliver a.(1) a.(2) (madd c (mmul x y))
  | "_mul_naive" ->
    (* _mul_naive RET C A Bt clear : the cubic kernel on the pre-transposed second factor *)
    let c = m 2 and x = m 3 and y = m 4 in
    let base = if i 5 <> 0 then zero_like c else c in
    deliver a.(1) a.(2) (madd base (mmul x (mtrans y)))
  | "mul_va" ->
    let c = m 2 and x = m 3 and y = m 4 in
    let base = if i 5 <> 0 then zero_like c else c in
    deliver a.(1) a.(2) (madd base (mmul x y))
  | "djb" ->
    let x = m 2 and v = m 3 in
    Hashtbl.replace env a.(1) (Owned (ref (mmul x v)))
  (* ---- C02 ---- *)
  | "echelonize_naive" | "echelonize_pluq" | "echelonize" ->
    let (r, e) = gauss_delayed (i 2 <> 0) O (m 1) in
    set_mat a.(1) e; Printf.printf "ret %d\n" (int_of_nat r)
  | "echelonize_m4ri" | "_echelonize_m4ri" ->
    let (r, e) = gauss_delayed (i 2 <> 0) O (m 1) in
    set_mat a.(1) e; Printf.printf "ret %d\n" (int_of_nat r)
  | "gauss_delayed" ->
    let (r, e) = gauss_delayed (i 3 <> 0) (ni (i 2)) (m 1) in
    set_mat a.(1) e; Printf.printf "ret %d\n" (int_of_nat r)
  | "top_echelonize_m4ri" ->
    set_mat a.(1) (rref (m 1))
  (* ---- C08 ---- *)
  | "add" | "_add" ->
    let x = m 3 and y = m 4 in
    if op = "add" then begin
      if nri x <> nri y || nci x <> nci y then die "add dims";
      if a.(2) <> "-" && a.(2) <> a.(3) then (let c = m 2 in if nri c <> nri x || nci c <> nci x then die "add ret dims")
    end;
    deliver a.(1) a.(2) (madd x y)
  | "set_ui" -> let x = m 1 in set_mat a.(1) (set_ui x.nr x.nc (ni (i 2)))
  | "transpose" ->
    let x = m 3 in
    if a.(2) <> "-" then (let d = m 2 in if nri d <> nci x || nci d <> nri x then die "transpose dims");
    deliver a.(1) a.(2) (mtrans x)
  | "copy" ->
    let x = m 3 in
    if a.(2) = "-" then deliver a.(1) a.(2) x
    else begin
      let d = m 2 in
      if nri d < nri x || nci d < nci x then die "copy dims";
      set_mat a.(2) (mcopy_into d x) end
  | "copy_row" -> set_mat a.(1) (copy_row (m 1) (ni (i 2)) (m 3) (ni (i 4)))
  | "submatrix" ->
    let x = m 3 in
    let r0 = i 4 and c0 = i 5 and r1 = i 6 and c1 = i 7 in
    let s = msub x (ni r0) (ni c0) (ni (r1 - r0)) (ni (c1 - c0)) in
    if a.(2) = "-" then deliver a.(1) a.(2) s
    else begin
      let d = m 2 in
      if nri d < r1 - r0 || nci d < c1 - c0 then die "submatrix dims";
      set_mat a.(2) (mcopy_into d s) end
  | "concat" ->
    let x = m 3 and y = m 4 in
    if nri x <> nri y then die "concat";
    if a.(2) <> "-" then (let c = m 2 in if nri c <> nri x || nci c <> nci x + nci y then die "concat C");
    deliver a.(1) a.(2) (mconcat x y)
  | "stack" ->
    let x = m 3 and y = m 4 in
    if nci x <> nci y then die "stack";
    if a.(2) <> "-" then (let c = m 2 in if nri c <> nri x + nri y || nci c <> nci x then die "stack C");
    deliver a.(1) a.(2) (mstack x y)
  | "extract_u" -> deliver a.(1) a.(2) (extract_u (m 3))
  | "extract_l" -> deliver a.(1) a.(2) (extract_l (m 3))
  (* ---- C13 ---- *)
  | "row_swap" -> set_mat a.(1) (row_swap (m 1) (ni (i 2)) (ni (i 3)))
  | "col_swap" -> set_mat a.(1) (col_swap (m 1) (ni (i 2)) (ni (i 3)))
  | "col_swap_in_rows" -> set_mat a.(1) (col_swap_in_rows (m 1) (ni (i 2)) (ni (i 3)) (ni (i 4)) (ni (i 5)))
  | "row_add" -> set_mat a.(1) (row_add (m 1) (ni (i 2)) (ni (i 3)))
  | "row_add_offset" -> set_mat a.(1) (row_add_offset (m 1) (ni (i 2)) (ni (i 3)) (ni (i 4)))
  | "xor_bits" -> set_mat a.(1) (xor_bits (m 1) (ni (i 2)) (ni (i 3)) (ni (i 4)) (n_of_hex a.(5)))
  | "clear_bits" -> set_mat a.(1) (clear_bits (m 1) (ni (i 2)) (ni (i 3)) (ni (i 4)))
  | "row_clear_offset" -> set_mat a.(1) (row_clear_offset (m 1) (ni (i 2)) (ni (i 3)))
  | "read_bits" -> Printf.printf "ret %s\n" (hex_of_n (read_bits (m 1) (ni (i 2)) (ni (i 3)) (ni (i 4))))
  | "apply_p_left" -> set_mat a.(1) (apply_p_left (m 1) (perm_list a.(2)))
  | "apply_p_left_trans" -> set_mat a.(1) (apply_p_left_trans (m 1) (perm_list a.(2)))
  | "apply_p_right" -> set_mat a.(1) (apply_p_right (m 1) (perm_list a.(2)))
  | "apply_p_right_trans" -> set_mat a.(1) (apply_p_right_trans (m 1) (perm_list a.(2)))
  | "apply_p_right_trans_tri" -> set_mat a.(1) (apply_p_right_trans_tri (m 1) (perm_list a.(2)))
  (* ---- C17 ---- *)
  | "equal" -> Printf.printf "ret %d\n" (if mequal (m 1) (m 2) then 1 else 0)
  | "cmp" -> Printf.printf "ret %d\n" (match mcmp (m 1) (m 2) with Eq -> 0 | Lt -> -1 | Gt -> 1)
  | "is_zero" -> Printf.printf "ret %d\n" (if is_zero (m 1) then 1 else 0)
  | "find_pivot" ->
    (match find_pivot (m 1) (ni (i 2)) (ni (i 3)) with
     | Some (r, c) -> Printf.printf "ret 1 %d %d\n" (int_of_nat r) (int_of_nat c)
     | None -> Printf.printf "ret 0\n")
  | "first_zero_row" -> Printf.printf "ret %d\n" (int_of_nat (first_zero_row (m 1)))
  | "read_bit" -> Printf.printf "ret %d\n" (if get (m 1) (ni (i 2)) (ni (i 3)) then 1 else 0)
  | "write_bit" -> set_mat a.(1) (write_bit (m 1) (ni (i 2)) (ni (i 3)) (i 4 <> 0))
  | _ -> Ext.dispatch_ext op a

let run_case (lines : string list) =
  Hashtbl.reset env;
  List.iter (fun line ->
      let toks = Array.of_list (List.filter (fun s -> s <> "") (String.split_on_char ' ' (String.trim line))) in
      if Array.length toks > 0 then
        match toks.(0) with
        | "mat" ->
          let r = int_of_string toks.(2) and c = int_of_string toks.(3) in
          let rows = List.init r (fun k -> n_of_hex toks.(4 + k)) in
          Hashtbl.replace env toks.(1) (Owned (ref { nr = ni r; nc = ni c; rows }))
        | "win" ->
          let p = toks.(2) in
          let r0 = int_of_string toks.(3) and c0 = int_of_string toks.(4)
          and r1 = int_of_string toks.(5) and c1 = int_of_string toks.(6) in
          let pm = get_mat p in
          let nrw = min (r1 - r0) (nri pm - r0) in
          Hashtbl.replace env toks.(1) (Win (p, r0, c0, nrw, c1 - c0))
        | "perm" ->
          let len = int_of_string toks.(2) in
          Hashtbl.replace env toks.(1) (Perm (ref (Array.init len (fun k -> int_of_string toks.(3 + k)))))
        | "call" -> dispatch (Array.sub toks 1 (Array.length toks - 1))
        | "dump" -> dump_mat toks.(1)
        | "dumpperm" ->
          let p = !(get_perm toks.(1)) in
          Printf.printf "perm %s %d" toks.(1) (Array.length p);
          Array.iter (fun v -> Printf.printf " %d" v) p; print_newline ()
        | "free" -> ()
        | "consts" -> if Array.length toks > 1 then Ext.set_consts toks else Ext.print_consts ()
        | s -> failwith ("unknown command " ^ s)) lines

let () =
  Ext.init { Ext.get_mat; set_mat; deliver; get_perm_list = perm_list; set_perm_list = set_perm;
             bind_null = (fun name -> Hashtbl.replace env name Null);
             bind_owned = (fun name m -> Hashtbl.replace env name (Owned (ref m)));
             is_window = (fun name -> match Hashtbl.find_opt env name with Some (Win _) -> true | _ -> false) };
  let ic = open_in Sys.argv.(1) in
  let rec read acc = match input_line ic with
    | l -> read (l :: acc)
    | exception End_of_file -> List.rev acc in
  let lines = read [] in
  let rec cases = function
    | [] -> ()
    | l :: rest when String.length l >= 5 && String.sub l 0 5 = "case " ->
      let id = String.trim (String.sub l 5 (String.length l - 5)) in
      let rec split acc = function
        | [] -> (List.rev acc, [])
        | e :: t when String.length e >= 3 && String.sub e 0 3 = "end" -> (List.rev acc, t)
        | e :: t -> split (e :: acc) t in
      let (body, rest') = split [] rest in
      Printf.printf "case %s\n" id;
      (try run_case body; Printf.printf "fate OK \n"
       with
       | Die s -> Printf.printf "fate DIE %s\n" s
       | Unsupported s -> Printf.printf "fate UNSUPPORTED %s\n" s
       | Ext.Tb_err s -> Printf.printf "fate %s \n" s
       | Failure s -> Printf.printf "fate MODELERROR %s\n" s
       | Not_found -> Printf.printf "fate MODELERROR not_found\n"
       | Invalid_argument s -> Printf.printf "fate MODELERROR %s\n" s);
      flush stdout;
      cases rest'
    | _ :: rest -> cases rest in
  cases lines
