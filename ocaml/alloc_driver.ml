(* alloc_driver.ml -- C14: run allocation histories on the model extracted from coq/Sys/Alloc.v
   (module Alloc_model, produced by the engine tools/props/c14.py with ExtrOcamlBasic only) and
   print the predicted trace in the same canonical text form as c/alloc_harness.c.

   usage: alloc_driver NBLOCKS THRESHOLD CACHE_MAX enable_mmc enable_mzd_cache [static-known]  < histories *)
open Alloc_model

let rec pos_of_int (n : int) : positive =
  if n = 1 then XH else if n land 1 = 1 then XI (pos_of_int (n lsr 1)) else XO (pos_of_int (n lsr 1))

let n_of_int (n : int) : n = if n <= 0 then N0 else Npos (pos_of_int n)

let rec int_of_pos (p : positive) : int =
  match p with XH -> 1 | XO q -> 2 * int_of_pos q | XI q -> 2 * int_of_pos q + 1

let int_of_n (x : n) : int = match x with N0 -> 0 | Npos p -> int_of_pos p

let nat_of_int (k : int) : nat =
  let rec go k acc = if k <= 0 then acc else go (k - 1) (S acc) in
  go k O

let int_of_nat (x : nat) : int =
  let rec go x acc = match x with O -> acc | S y -> go y (acc + 1) in
  go x 0

let static_known = ref true

let hdr_string (h : hslot) : string =
  match h with
  | HMalloc i -> Printf.sprintf "M%d" (int_of_n i)
  | HSlot (None, e) -> if !static_known then Printf.sprintf "Ss:%d" (int_of_n e) else "Ss:?"
  | HSlot (Some b, e) -> Printf.sprintf "S%d:%d" (int_of_n b) (int_of_n e)

let print_event (s : state) (e : event) : unit =
  match e with
  | SysAlloc (i, sz) -> Printf.printf "A %d %d\n" (int_of_n i) (int_of_n sz)
  | SysFree i -> Printf.printf "D %d\n" (int_of_n i)
  | RetInit (h, r, c, rs, d, hd, z) ->
      Printf.printf "I %d %d %d %d %s %s %d\n" (int_of_nat h) (int_of_n r) (int_of_n c) (int_of_n rs)
        (match d with None -> "-" | Some b -> string_of_int (int_of_n b))
        (hdr_string hd)
        (if z then 1 else 0)
  | RetWindow (h, r, c, rs, d, hd) ->
      Printf.printf "W %d %d %d %d %s %s\n" (int_of_nat h) (int_of_n r) (int_of_n c) (int_of_n rs)
        (match d with None -> "-" | Some (b, off) -> Printf.sprintf "%d+%d" (int_of_n b) (int_of_n off))
        (hdr_string hd)
  | RetFree h -> Printf.printf "F %d\n" (int_of_nat h)
  | RetWrite h -> Printf.printf "X %d\n" (int_of_nat h)
  | RetFini -> Printf.printf "Z live=%d base=0\n" (List.length s.st_heap)

let parse_op (l : string) : op option =
  try
    match l.[0] with
    | 'I' -> Scanf.sscanf l "I %d %d" (fun r c -> Some (Init (n_of_int r, n_of_int c)))
    | 'W' ->
        Scanf.sscanf l "W %d %d %d %d %d" (fun h a b c d ->
            Some (Window (nat_of_int h, n_of_int a, n_of_int b, n_of_int c, n_of_int d)))
    | 'F' -> Scanf.sscanf l "F %d" (fun h -> Some (Free (nat_of_int h)))
    | 'X' -> Scanf.sscanf l "X %d %d" (fun h v -> Some (Write (nat_of_int h, n_of_int v)))
    | 'Z' -> Some Fini
    | _ -> None
  with _ -> None

let () =
  let a = Sys.argv in
  if Array.length a < 6 then (prerr_endline "usage: alloc_driver NBLOCKS THRESHOLD CACHE_MAX mmc mzdcache [0|1]"; exit 2);
  let p =
    { nBLOCKS = nat_of_int (int_of_string a.(1)); tHRESHOLD = n_of_int (int_of_string a.(2));
      cACHE_MAX = nat_of_int (int_of_string a.(3)); enable_mmc = a.(4) = "1"; enable_mzd_cache = a.(5) = "1" }
  in
  if Array.length a > 6 && a.(6) = "0" then static_known := false;
  let st = ref (init_state p) in
  let base = ref None in   (* state after the preamble (ops before the first H) *)
  (try
     while true do
       let l = input_line stdin in
       if String.length l > 0 then
         match l.[0] with
         | 'H' ->
             (match !base with None -> base := Some !st | Some b -> st := b);
             print_endline l
         | '#' -> ()
         | 'E' -> print_endline "E"
         | _ -> (
             match parse_op l with
             | None -> Printf.printf "?bad-line %s\n" l
             | Some o ->
                 let s', evs = step p !st o in
                 List.iter (print_event s') evs;
                 st := s')
     done
   with End_of_file -> ());
  flush stdout
