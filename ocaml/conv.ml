(* ocaml/conv.ml — exceptions and conversions between OCaml values and the extracted datatypes *)
open M4model

exception Die of string
exception Unsupported of string

(* value of the last "ret <int>" line printed (tokens "ret" in later commands, dumppermr, dumpifret0) *)
let lastret : int ref = ref 0
let print_ret (v : int) = lastret := v; Printf.printf "ret %d\n" v

(* ---------- conversions between OCaml ints / hex strings and the extracted datatypes ---------- *)
let rec nat_of_int i = if i <= 0 then O else S (nat_of_int (i - 1))
let nat_of_int =
  (* memoised for speed *)
  let tbl = Hashtbl.create 4096 in
  fun i ->
    if i <= 0 then O
    else match Hashtbl.find_opt tbl i with
      | Some n -> n
      | None ->
        let rec build k acc = if k = 0 then acc else build (k - 1) (S acc) in
        let n = build i O in Hashtbl.add tbl i n; n
let rec int_of_nat = function O -> 0 | S n -> 1 + int_of_nat n
let int_of_nat n = let rec go acc = function O -> acc | S m -> go (acc + 1) m in go 0 n

let hexval c = match c with
  | '0'..'9' -> Char.code c - 48 | 'a'..'f' -> Char.code c - 87 | 'A'..'F' -> Char.code c - 55
  | _ -> failwith "bad hex"

(* positive from a list of bits, most significant first, the first one being 1 *)
let n_of_hex (h : string) : n =
  let bits = ref [] in (* msb first *)
  String.iter (fun c -> let v = hexval c in
                for k = 3 downto 0 do bits := ((v lsr k) land 1 = 1) :: !bits done) h;
  let msb_first = List.rev !bits in
  let rec strip = function false :: t -> strip t | l -> l in
  match strip msb_first with
  | [] -> N0
  | _ :: rest -> Npos (List.fold_left (fun p b -> if b then XI p else XO p) XH rest)

let hex_of_n (x : n) : string =
  match x with
  | N0 -> "0"
  | Npos p ->
    let rec bits p acc = match p with   (* lsb first *)
      | XH -> List.rev (true :: acc)
      | XO q -> bits q (false :: acc)
      | XI q -> bits q (true :: acc) in
    let b = Array.of_list (bits p []) in
    let nb = Array.length b in
    let nd = (nb + 3) / 4 in
    let buf = Bytes.create nd in
    for d = 0 to nd - 1 do
      let v = ref 0 in
      for k = 0 to 3 do
        let i = 4 * d + k in
        if i < nb && b.(i) then v := !v lor (1 lsl k)
      done;
      Bytes.set buf (nd - 1 - d) "0123456789abcdef".[!v]
    done;
    Bytes.to_string buf


(* ---------- Z <-> signed hexadecimal ("-1f", "7fffffffffffffff") ---------- *)
let z_of_shex (s : string) : z =
  if String.length s > 0 && s.[0] = '-' then x_z_opp (x_z_of_N (n_of_hex (String.sub s 1 (String.length s - 1))))
  else x_z_of_N (n_of_hex s)
let shex_of_z (v : z) : string =
  let neg = x_z_ltb v (x_z_of_N N0) in
  (if neg then "-" else "") ^ hex_of_n (x_z_abs_N v)
